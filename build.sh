#!/bin/sh
# Build the verification engine (offline).
set -e
export PATH=/opt/veriftools/go1.26.8/bin:$PATH GOTOOLCHAIN=local GOFLAGS=-mod=mod GOPROXY=off GOSUMDB=off
cd "$(dirname "$0")/engine"
mkdir -p ../bin
go build -o ../bin/govc .
