package main

// Interprocedural, type-and-field based modification sets.
// Sound frame inference: a function can only modify the abstract locations
// for which it (or something it may call) contains a store instruction.

import (
	"go/types"
	"strings"

	"golang.org/x/tools/go/ssa"
)

func mapLocKey(t types.Type) string { return typeKey(t.Underlying()) }

func locField(owner types.Type, i int) (string, LocInfo) {
	u := owner.Underlying().(*types.Struct)
	return fieldLoc(owner, i), LocInfo{Kind: "F", Val: u.Field(i).Type()}
}
func locElem(elem types.Type) (string, LocInfo) {
	return "E:" + typeKey(elem), LocInfo{Kind: "E", Val: elem}
}
func locCell(t types.Type) (string, LocInfo) {
	return "C:" + typeKey(t), LocInfo{Kind: "C", Val: t}
}
func locGlobal(g *ssa.Global) (string, LocInfo) {
	return "G:" + g.Pkg.Pkg.Path() + "." + g.Name(), LocInfo{Kind: "G", Val: g.Type().(*types.Pointer).Elem()}
}
func locMapDom(t types.Type) (string, LocInfo) {
	m := t.Underlying().(*types.Map)
	return "MD:" + mapLocKey(t), LocInfo{Kind: "MD", Key: m.Key(), Val: m.Elem()}
}
func locMapVal(t types.Type) (string, LocInfo) {
	m := t.Underlying().(*types.Map)
	return "MV:" + mapLocKey(t), LocInfo{Kind: "MV", Key: m.Key(), Val: m.Elem()}
}

// all leaf field locations of a struct type (nested by-value structs flattened)
func addStructLeaves(m *ModSet, t types.Type) {
	u, ok := t.Underlying().(*types.Struct)
	if !ok {
		return
	}
	for i := 0; i < u.NumFields(); i++ {
		ft := u.Field(i).Type()
		if isStruct(ft) {
			addStructLeaves(m, ft)
		} else {
			l, li := locField(t, i)
			m.add(l, li)
		}
	}
}

// locations written by a store of a value of type t at the given address value
func addStoreLocs(m *ModSet, addr ssa.Value) {
	pt, ok := addr.Type().Underlying().(*types.Pointer)
	if !ok {
		m.Top = true
		return
	}
	elem := pt.Elem()
	if isStruct(elem) {
		addStructLeaves(m, elem)
		return
	}
	addAddrLoc(m, addr, elem)
}

func addAddrLoc(m *ModSet, addr ssa.Value, elem types.Type) {
	switch a := addr.(type) {
	case *ssa.FieldAddr:
		owner := a.X.Type().Underlying().(*types.Pointer).Elem()
		l, li := locField(owner, a.Field)
		m.add(l, li)
	case *ssa.IndexAddr:
		switch xt := a.X.Type().Underlying().(type) {
		case *types.Slice:
			l, li := locElem(xt.Elem())
			m.add(l, li)
		case *types.Pointer: // pointer to array: the array lives in its parent location
			arr := xt.Elem()
			addAddrLoc(m, a.X, arr)
		default:
			m.Top = true
		}
	case *ssa.Global:
		l, li := locGlobal(a)
		m.add(l, li)
	default:
		l, li := locCell(elem)
		m.add(l, li)
	}
}

func (e *Engine) inModule(fn *ssa.Function) bool {
	if fn == nil {
		return false
	}
	p := fn.Pkg
	if p == nil && fn.Parent() != nil {
		return e.inModule(fn.Parent())
	}
	if p == nil {
		// synthetic wrappers / instantiations
		if fn.Origin() != nil {
			return e.inModule(fn.Origin())
		}
		if o := fn.Object(); o != nil && o.Pkg() != nil {
			return isModPath(o.Pkg().Path())
		}
		return false
	}
	return isModPath(p.Pkg.Path())
}

func isModPath(p string) bool { return p == "ti" || strings.HasPrefix(p, "ti/") }

// external functions that write through their arguments
func externalMod(fn *ssa.Function, call *ssa.CallCommon) ModSet {
	var m ModSet
	name := fn.String()
	switch {
	case strings.HasPrefix(name, "sort.") || strings.HasPrefix(name, "slices.Sort") || name == "slices.Reverse" || strings.HasPrefix(name, "slices.Reverse["):
		for _, a := range call.Args {
			at := a.Type()
			if mi, ok := a.(*ssa.MakeInterface); ok {
				at = mi.X.Type() // sort.Slice(x any, ..): the dynamic type is the slice
			}
			if st, ok := at.Underlying().(*types.Slice); ok {
				if isStruct(st.Elem()) {
					addStructLeaves(&m, st.Elem())
				} else {
					l, li := locElem(st.Elem())
					m.add(l, li)
				}
			}
		}
	case strings.HasPrefix(name, "fmt.Print") || strings.HasPrefix(name, "fmt.Fprint"):
		m.add(outLoc, LocInfo{Kind: "G", Val: types.Typ[types.Int]})
	case strings.HasPrefix(name, "(*strings.Builder).Write") || name == "(*strings.Builder).Reset":
		owner := fn.Signature.Recv().Type().Underlying().(*types.Pointer).Elem()
		st := owner.Underlying().(*types.Struct)
		for i := 0; i < st.NumFields(); i++ {
			if st.Field(i).Name() == "buf" {
				l, li := locField(owner, i)
				m.add(l, li)
			}
		}
		m.add(builderNLLoc, LocInfo{Kind: "C", Val: types.Typ[types.Int]})
	case strings.HasPrefix(name, "encoding/json.Unmarshal"), strings.HasPrefix(name, "(*encoding/json.Decoder)"):
		m.Top = true
	}
	return m
}

func (e *Engine) directMod(fn *ssa.Function) (ModSet, []*ssa.Function, bool) {
	var m ModSet
	var callees []*ssa.Function
	dyn := false
	for _, b := range fn.Blocks {
		for _, ins := range b.Instrs {
			switch x := ins.(type) {
			case *ssa.Store:
				addStoreLocs(&m, x.Addr)
			case *ssa.MapUpdate:
				l, li := locMapDom(x.Map.Type())
				m.add(l, li)
				l, li = locMapVal(x.Map.Type())
				m.add(l, li)
				if g := globalOf(x.Map); g != "" {
					m.add(mapWritesLoc(g), LocInfo{Kind: "G", Val: types.Typ[types.Int]}) // ghost write counter
				}
			case ssa.CallInstruction:
				c := x.Common()
				if c.IsInvoke() {
					for _, f := range e.implementations(c) {
						callees = append(callees, f)
					}
					continue
				}
				switch v := c.Value.(type) {
				case *ssa.Builtin:
					switch v.Name() {
					case "append", "copy":
						if st, ok := c.Args[0].Type().Underlying().(*types.Slice); ok {
							if isStruct(st.Elem()) {
								addStructLeaves(&m, st.Elem())
							} else {
								l, li := locElem(st.Elem())
								m.add(l, li)
							}
						}
					case "delete", "clear":
						if _, ok := c.Args[0].Type().Underlying().(*types.Map); ok {
							l, li := locMapDom(c.Args[0].Type())
							m.add(l, li)
							l, li = locMapVal(c.Args[0].Type())
							m.add(l, li)
						}
					}
				case *ssa.Function:
					if e.inModule(v) {
						callees = append(callees, v)
					} else {
						m.union(externalMod(v, c))
					}
				case *ssa.MakeClosure:
					callees = append(callees, v.Fn.(*ssa.Function))
				default:
					dyn = true
				}
			}
		}
	}
	// closures defined here may be called by callees we pass them to; include them conservatively
	for _, af := range fn.AnonFuncs {
		callees = append(callees, af)
	}
	return m, callees, dyn
}

// all module functions implementing an interface method call
func (e *Engine) implementations(c *ssa.CallCommon) []*ssa.Function {
	key := c.Method.FullName()
	if r, ok := e.implCache[key]; ok {
		return r
	}
	var out []*ssa.Function
	iface, _ := c.Value.Type().Underlying().(*types.Interface)
	if iface != nil {
		for _, T := range e.allNamed {
			for _, t := range []types.Type{T, types.NewPointer(T)} {
				if types.IsInterface(t) || !types.Implements(t, iface) {
					continue
				}
				ms := e.prog.MethodSets.MethodSet(t)
				sel := ms.Lookup(c.Method.Pkg(), c.Method.Name())
				if sel == nil {
					continue
				}
				if f := e.prog.MethodValue(sel); f != nil {
					out = append(out, f)
				}
			}
		}
	}
	e.implCache[key] = out
	return out
}

func (e *Engine) computeModSets() {
	type info struct {
		callees []*ssa.Function
	}
	infos := map[*ssa.Function]*info{}
	e.mods = map[*ssa.Function]*ModSet{}
	var work []*ssa.Function
	for _, fn := range e.allFuncs {
		if !e.inModule(fn) || fn.Blocks == nil {
			continue
		}
		m, cs, dyn := e.directMod(fn)
		if dyn {
			m = ModSet{Top: true}
		}
		mm := m
		e.mods[fn] = &mm
		infos[fn] = &info{cs}
		work = append(work, fn)
	}
	for changed := true; changed; {
		changed = false
		for _, fn := range work {
			m := e.mods[fn]
			for _, c := range infos[fn].callees {
				if cm, ok := e.mods[c]; ok {
					if m.union(*cm) {
						changed = true
					}
				} else if e.inModule(c) {
					// wrapper without blocks etc.
				}
			}
		}
	}
}

func (e *Engine) modOf(fn *ssa.Function) ModSet {
	if m, ok := e.mods[fn]; ok {
		return *m
	}
	return ModSet{}
}
