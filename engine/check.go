package main

// Property-level driver: which functions / obligations decide a property,
// known findings, VIOLATION lines, evidence files.

import (
	"encoding/json"
	"flag"
	"fmt"
	"os"
	"path/filepath"
	"sort"
	"strconv"
	"strings"
	"time"
)

type PropConfig struct {
	Functions   []string `json:"functions"`    // functions under contract whose obligations decide the property
	OrderLoops  []string `json:"order_pkgs"`   // packages whose map ranges get order obligations
	OrderSkip   map[string]string `json:"order_skip"` // map ranges left unverified (function/order:loopN -> reason)
	Relational  []string `json:"relational"`   // relational lemma groups
	Unverified  []string `json:"unverified"`   // named parts of the property that no contract covers
	Assumed     []string `json:"assumed"`      // assumed contracts / entry-point preconditions
	Explanation string   `json:"explanation"`
	Special     []string `json:"special"`      // extra obligation generators (by name)
}

type Finding struct {
	Kind       string // finding | fixed
	Property   string
	Obligation string
	Text       string
}

func loadFindings(path string) []Finding {
	data, err := os.ReadFile(path)
	if err != nil {
		return nil
	}
	var out []Finding
	for _, ln := range strings.Split(string(data), "\n") {
		ln = strings.TrimSpace(ln)
		if ln == "" || strings.HasPrefix(ln, "#") {
			continue
		}
		var f Finding
		switch {
		case strings.HasPrefix(ln, "finding:"):
			f.Kind = "finding"
			ln = strings.TrimSpace(strings.TrimPrefix(ln, "finding:"))
		case strings.HasPrefix(ln, "fixed:"):
			f.Kind = "fixed"
			ln = strings.TrimSpace(strings.TrimPrefix(ln, "fixed:"))
		default:
			continue
		}
		for _, fld := range strings.Fields(ln) {
			if strings.HasPrefix(fld, "property=") {
				f.Property = strings.TrimPrefix(fld, "property=")
			}
			if strings.HasPrefix(fld, "obligation=") {
				f.Obligation = strings.TrimPrefix(fld, "obligation=")
			}
		}
		f.Text = ln
		out = append(out, f)
	}
	return out
}

type Evidence struct {
	PropertyID  string         `json:"property_id"`
	Tier        string         `json:"tier"`
	Seed        int            `json:"seed"`
	Level       string         `json:"level"`
	Coverage    map[string]any `json:"coverage"`
	Assumptions []string       `json:"assumptions"`
	WallS       float64        `json:"wall_s"`
	Violations  int            `json:"violations"`
}

func obBelongs(ob *Obligation, prop string) bool {
	if len(ob.Tags) == 0 {
		return true
	}
	for _, t := range ob.Tags {
		if t == prop {
			return true
		}
	}
	return false
}

func cmdCheck(args []string) {
	fs := flag.NewFlagSet("check", flag.ExitOnError)
	repo := fs.String("repo", "/repo", "repository")
	verif := fs.String("verif", "/verif", "verif directory")
	prop := fs.String("property", "", "property id")
	tier := fs.String("tier", "quick", "quick|thorough")
	ov := fs.String("ov", "", "overlay: repoRelPath=replacementFile[,..]")
	noEvidence := fs.Bool("no-evidence", false, "do not write the evidence file (selftest)")
	fs.Parse(args)
	t0 := time.Now()
	seed, _ := strconv.Atoi(os.Getenv("VERIF_SEED"))
	if t := os.Getenv("VERIF_TIER"); t != "" && *tier == "" {
		*tier = t
	}

	var props map[string]*PropConfig
	data, err := os.ReadFile(filepath.Join(*verif, "props.json"))
	if err != nil {
		fmt.Fprintln(os.Stderr, "props.json:", err)
		os.Exit(2)
	}
	if err := json.Unmarshal(data, &props); err != nil {
		fmt.Fprintln(os.Stderr, "props.json:", err)
		os.Exit(2)
	}
	pc := props[*prop]
	if pc == nil {
		fmt.Fprintln(os.Stderr, "unknown property", *prop)
		os.Exit(2)
	}
	overlay := map[string][]byte{}
	if *ov != "" {
		for _, kv := range strings.Split(*ov, ",") {
			p := strings.SplitN(kv, "=", 2)
			d, err := os.ReadFile(p[1])
			if err != nil {
				fmt.Fprintln(os.Stderr, err)
				os.Exit(2)
			}
			overlay[*repo+"/"+p[0]] = d
		}
	}
	replayDir := filepath.Join(*verif, "replay")
	os.MkdirAll(replayDir, 0o755)
	violation := func(replayPath, extra string) {
		fmt.Printf("VIOLATION property=%s replay=%s %s\n", *prop, replayPath, extra)
	}
	writeRecord := func(name string, rec any) string {
		p := filepath.Join(replayDir, *prop+"_"+name+".json")
		b, _ := json.MarshalIndent(rec, "", " ")
		os.WriteFile(p, b, 0o644)
		return p
	}

	eng, err := loadEngine(*repo, overlay)
	if err != nil {
		// the tree does not load (does not compile / contract file broken): the property cannot be decided
		p := writeRecord("load_error", map[string]string{"obligation": "binding/load", "error": err.Error()})
		violation(p, "obligation=binding/load cannot load /repo with -tags verif: "+firstLine(err.Error())+" no-failing-input-found")
		os.Exit(1)
	}
	dir, _ := os.MkdirTemp("", "govc")
	defer os.RemoveAll(dir)
	opts := SolveOpts{TimeoutMs: 10000, Dir: dir, Seed: seed}
	if *tier == "thorough" {
		opts.TimeoutMs = 60000
		opts.AllSolvers = true
	}

	findings := loadFindings(filepath.Join(*verif, "known_findings.txt"))
	known := map[string]Finding{}
	for _, f := range findings {
		if f.Kind == "finding" && f.Property == *prop {
			known[f.Obligation] = f
		}
	}

	var all []*Obligation
	results := map[string]*FuncResult{}
	var outOfSubset, bindingErrs, notes []string
	funcs := append([]string{}, pc.Functions...)
	orderLoops := 0
	if len(pc.OrderLoops) > 0 {
		eng.orderSkip = pc.OrderSkip
		or := eng.orderObligations(pc.OrderLoops, *prop)
		for k, why := range pc.OrderSkip {
			notes = append(notes, "map range left unverified: "+k+": "+why)
		}
		all = append(all, or.obs...)
		outOfSubset = append(outOfSubset, or.outOfSubset...)
		notes = append(notes, or.notes...)
		orderLoops = len(or.obs)
		for _, ef := range or.extraFuncs {
			dup := false
			for _, f0 := range funcs {
				if f0 == ef {
					dup = true
				}
			}
			if !dup {
				funcs = append(funcs, ef)
			}
		}
	}
	_ = orderLoops
	slow := os.Getenv("VERIF_SLOW") != ""
	if slow {
		fmt.Printf("phase: load+order %.1fs\n", time.Since(t0).Seconds())
	}
	for _, fn := range funcs {
		t1 := time.Now()
		r := eng.verifyFunc(fn, false)
		if slow && time.Since(t1).Seconds() > 1 {
			fmt.Printf("phase: vcgen %s %.1fs\n", fn, time.Since(t1).Seconds())
		}
		results[fn] = r
		if r.BindingErr != "" {
			bindingErrs = append(bindingErrs, fn+": "+r.BindingErr)
			continue
		}
		if r.Unsupported != "" {
			outOfSubset = append(outOfSubset, fn+": "+r.Unsupported)
			continue
		}
		if eng.contracts[fn] == nil {
			bindingErrs = append(bindingErrs, fn+": no contract found in verif_contracts.go")
			continue
		}
		for _, ob := range r.Obs {
			if ob.Claimed && obBelongs(ob, *prop) {
				all = append(all, ob)
			}
		}
		notes = append(notes, r.Notes...)
	}
	// special generators (order obligations etc.)
	for _, sp := range pc.Special {
		obs, subset, nts := eng.specialObligations(sp, *prop)
		all = append(all, obs...)
		outOfSubset = append(outOfSubset, subset...)
		notes = append(notes, nts...)
	}
	tSolve := time.Now()
	solveAll(all, opts)
	if slow {
		fmt.Printf("phase: solve %.1fs\n", time.Since(tSolve).Seconds())
	}

	violations := 0
	discharged := 0
	var knownHit []string
	var samples []map[string]any
	bySolver := map[string]int{}
	vacuity := 0
	var failed []*Obligation
	for _, ob := range all {
		good := ob.Status == "unsat"
		if ob.Cover {
			good = ob.Status == "sat"
			vacuity++
		}
		if good {
			discharged++
			bySolver[ob.Solver]++
			if len(samples) < 6 {
				samples = append(samples, map[string]any{"name": ob.Name, "kind": ob.Kind, "what": ob.Desc, "source": ob.Pos, "result": ob.Status, "solver": ob.Solver, "s": round3(ob.Seconds)})
			}
			continue
		}
		failed = append(failed, ob)
	}
	if os.Getenv("VERIF_SLOW") != "" {
		for _, ob := range all {
			if ob.Seconds > 2 {
				fmt.Printf("slow: %.1fs %s %s [%s]\n", ob.Seconds, ob.Name, ob.Status, ob.Solver)
			}
		}
	}
	for _, ob := range failed {
		if kf, ok := known[ob.Name]; ok {
			fmt.Printf("KNOWN-FINDING: %s\n", kf.Text)
			knownHit = append(knownHit, ob.Name)
			continue
		}
		violations++
		var vc *VC
		if r := results[ob.Func]; r != nil {
			vc = r.VC
		}
		var rr *ReplayResult
		if ob.Cover {
			rr = &ReplayResult{Obligation: ob.Name, Function: ob.Func, Desc: ob.Desc, Status: ob.Status, Solver: ob.Solver, Outcome: "vacuous-contract", Output: ob.Raw}
		} else {
			rr = eng.replay(vc, ob, opts, replayDir)
		}
		p := writeRecord(safeName(ob.Name), rr)
		tail := ""
		if !rr.Confirmed {
			tail = " no-failing-input-found"
		}
		violation(p, fmt.Sprintf("obligation=%s kind=%s status=%s at %s: %s; replay: %s%s", ob.Name, ob.Kind, ob.Status, ob.Pos, ob.Desc, rr.Outcome, tail))
	}
	// known findings that no longer fail
	for name, kf := range known {
		hit := false
		for _, k := range knownHit {
			if k == name {
				hit = true
			}
		}
		if !hit {
			fmt.Printf("note: known finding no longer reproduces (obligation discharged or gone): %s\n", kf.Text)
		}
	}
	for _, be := range bindingErrs {
		violations++
		p := writeRecord("binding_"+safeName(be), map[string]string{"obligation": "binding", "error": be})
		violation(p, "obligation=binding "+be+" no-failing-input-found")
	}
	for _, oo := range outOfSubset {
		violations++
		p := writeRecord("subset_"+safeName(oo), map[string]string{"obligation": "out-of-subset", "error": oo})
		violation(p, "obligation=out-of-subset the function left the verifier's subset, property undecided: "+oo+" no-failing-input-found")
	}
	if len(all) == 0 {
		violations++
		p := writeRecord("no_obligations", map[string]string{"obligation": "vacuity", "error": "no obligations generated"})
		violation(p, "obligation=vacuity no-obligations no-failing-input-found")
	}

	// evidence
	if !*noEvidence {
		var fns []string
		for _, fn := range funcs {
			fns = append(fns, fn)
		}
		var axioms []string
		for k := range usedAxioms {
			axioms = append(axioms, k)
		}
		sort.Strings(axioms)
		trusted := []string{
			"x/tools go/ssa lowering of /repo's source (go1.26.8)",
			"govc VC generator (this engine): heap model, loop cutting, contract semantics",
			"SMT solvers z3 4.8.12 / z3 5.1.0 / cvc5 1.0",
			"A1 machine integers treated as mathematical integers (no overflow obligations)",
			"A4 allocation always succeeds",
		}
		trusted = append(trusted, axioms...)
		solverTime.Lock()
		st := map[string]any{"total_s": round3(solverTime.total)}
		for k, v := range solverTime.by {
			st[k] = round3(v)
		}
		solverTime.Unlock()
		claimedN := len(all) - len(knownHit)
		ev := Evidence{PropertyID: *prop, Tier: *tier, Seed: seed, Level: "proof", WallS: round3(time.Since(t0).Seconds()), Violations: violations,
			Coverage: map[string]any{
				"obligations":              claimedN,
				"discharged":               discharged,
				"checker_cmd":              fmt.Sprintf("bin/govc check -property %s -tier %s (z3-new first, then race z3 4.8.12 | z3 5.1.0 | cvc5; thorough: all three on every obligation)", *prop, *tier),
				"trusted_base":             trusted,
				"functions_under_contract": fns,
				"by_solver":                bySolver,
				"solver_seconds":           st,
				"vacuity_checks":           vacuity,
				"known_findings":           knownHit,
				"out_of_subset":            outOfSubset,
				"unverified":               pc.Unverified,
				"samples":                  samples,
				"explanation":              pc.Explanation,
				"notes":                    dedupe(notes),
			},
			Assumptions: append(append([]string{}, pc.Assumed...), axioms...),
		}
		os.MkdirAll(filepath.Join(*verif, "evidence"), 0o755)
		b, _ := json.MarshalIndent(ev, "", " ")
		os.WriteFile(filepath.Join(*verif, "evidence", *prop+".json"), b, 0o644)
	}
	fmt.Printf("property %s tier %s: %d obligations, %d discharged, %d known findings, %d violations, %.1fs\n", *prop, *tier, len(all), discharged, len(knownHit), violations, time.Since(t0).Seconds())
	if violations > 0 {
		os.RemoveAll(dir) // (os.Exit skips the deferred clean-up)
		os.Exit(1)
	}
}

func dedupe(xs []string) []string {
	seen := map[string]bool{}
	var out []string
	for _, x := range xs {
		if !seen[x] {
			seen[x] = true
			out = append(out, x)
		}
	}
	return out
}

func firstLine(s string) string {
	if i := strings.Index(s, "\n"); i >= 0 {
		s = s[:i]
	}
	if len(s) > 300 {
		s = s[:300]
	}
	return s
}

func round3(f float64) float64 { return float64(int(f*1000)) / 1000 }

func safeName(s string) string {
	r := strings.NewReplacer("/", "_", "(", "", ")", "", "*", "", "#", "_", " ", "_", "$", "_", ":", "_", "\"", "", "'", "")
	s = r.Replace(s)
	if len(s) > 120 {
		s = s[:120]
	}
	return s
}

// placeholder for order / relational obligation generators
func (e *Engine) specialObligations(name, prop string) ([]*Obligation, []string, []string) {
	switch name {
	case "encap":
		return e.encapObligations(prop), nil, nil
	case "readers":
		var obs []*Obligation
		for _, ob := range append(append(append(e.readersObligations(prop), e.writersObligations(prop)...), e.callersObligations(prop)...), e.statelessObligations(prop)...) {
			if obBelongs(ob, prop) {
				obs = append(obs, ob)
			}
		}
		return obs, nil, nil
	}
	return nil, []string{"unknown special generator " + name}, nil
}
