package main

import (
	"flag"
	"fmt"
	"os"
	"strings"
)

func main() {
	if len(os.Args) < 2 {
		fmt.Fprintln(os.Stderr, "usage: govc verify|check|replay ...")
		os.Exit(2)
	}
	// go/packages looks `go` up in this process's PATH; /repo needs go >= 1.24.5
	os.Setenv("PATH", "/opt/veriftools/go1.26.8/bin:"+os.Getenv("PATH"))
	os.Setenv("GOTOOLCHAIN", "local")
	os.Setenv("GOFLAGS", "-mod=mod")
	os.Setenv("GOPROXY", "off")
	os.Setenv("GOSUMDB", "off")
	switch os.Args[1] {
	case "verify":
		cmdVerify(os.Args[2:])
	case "check":
		cmdCheck(os.Args[2:])
	case "readloops":
		cmdReadLoops(os.Args[2:])
	case "scan":
		cmdScan(os.Args[2:])
	case "ranges":
		cmdRanges(os.Args[2:])
	case "dump":
		cmdDump(os.Args[2:])
	case "frames":
		cmdFrames(os.Args[2:])
	case "sweep":
		cmdSweep(os.Args[2:])
	default:
		fmt.Fprintln(os.Stderr, "unknown command", os.Args[1])
		os.Exit(2)
	}
}

// debugging aid: verify the listed functions and print every obligation
func cmdVerify(args []string) {
	fs := flag.NewFlagSet("verify", flag.ExitOnError)
	repo := fs.String("repo", "/repo", "repository")
	funcs := fs.String("funcs", "", "comma separated function names (ssa String())")
	safety := fs.Bool("safety", false, "claim safety obligations")
	timeout := fs.Int("timeout", 10000, "per query timeout ms")
	keep := fs.String("keep", "", "directory to keep SMT files")
	verbose := fs.Bool("v", false, "verbose")
	claimedOnly := fs.Bool("claimed", false, "solve only the claimed obligations")
	ov := fs.String("ov", "", "overlay: repoRelPath=replacementFile[,..]")
	fs.Parse(args)
	overlay := map[string][]byte{}
	if *ov != "" {
		for _, kv := range strings.Split(*ov, ",") {
			p := strings.SplitN(kv, "=", 2)
			data, err := os.ReadFile(p[1])
			if err != nil {
				fmt.Fprintln(os.Stderr, err)
				os.Exit(2)
			}
			overlay[*repo+"/"+p[0]] = data
		}
	}
	eng, err := loadEngine(*repo, overlay)
	if err != nil {
		fmt.Fprintln(os.Stderr, "load:", err)
		os.Exit(2)
	}
	dir := *keep
	if dir == "" {
		dir, _ = os.MkdirTemp("", "govc")
		defer os.RemoveAll(dir)
	} else {
		os.MkdirAll(dir, 0o755)
	}
	names := strings.Split(*funcs, ",")
	if *funcs == "" {
		names = eng.contractOrder
	}
	bad := 0
	for _, n := range names {
		r := eng.verifyFunc(n, *safety)
		if r.BindingErr != "" {
			fmt.Println("BINDING", n, r.BindingErr)
			bad++
			continue
		}
		if r.Unsupported != "" {
			fmt.Println("UNSUPPORTED", n, ":", r.Unsupported)
		}
		if *claimedOnly {
			var keep []*Obligation
			for _, ob := range r.Obs {
				if ob.Claimed {
					keep = append(keep, ob)
				}
			}
			r.Obs = keep
		}
		solveAll(r.Obs, SolveOpts{TimeoutMs: *timeout, Dir: dir})
		ok, fail := 0, 0
		for _, ob := range r.Obs {
			good := ob.Status == "unsat"
			if ob.Cover {
				good = ob.Status == "sat"
			}
			if good {
				ok++
				if *verbose {
					fmt.Printf("  ok   %-60s %s %.2fs\n", ob.Name, ob.Solver, ob.Seconds)
				}
				continue
			}
			fail++
			cl := " "
			if ob.Claimed {
				cl = "*"
			}
			fmt.Printf("  FAIL%s %-60s %-8s %s  [%s] %s\n", cl, ob.Name, ob.Status, ob.Pos, ob.Solver, ob.Desc)
		}
		fmt.Printf("%s: %d obligations, %d ok, %d failed\n", n, len(r.Obs), ok, fail)
		for _, nt := range r.Notes {
			if *verbose {
				fmt.Println("  note:", nt)
			}
		}
		bad += fail
	}
	if bad > 0 {
		os.Exit(1)
	}
}

func cmdDump(args []string) {
	fs := flag.NewFlagSet("dump", flag.ExitOnError)
	repo := fs.String("repo", "/repo", "repository")
	fn := fs.String("func", "", "function")
	ob := fs.String("ob", "", "obligation name")
	fs.Parse(args)
	eng, err := loadEngine(*repo, nil)
	if err != nil {
		fmt.Fprintln(os.Stderr, "load:", err)
		os.Exit(2)
	}
	r := eng.verifyFunc(*fn, true)
	if r.Unsupported != "" {
		fmt.Println("; UNSUPPORTED", r.Unsupported)
	}
	for _, o := range r.Obs {
		if *ob == "" {
			fmt.Println(o.Name, "|", o.Desc)
		} else if o.Name == *ob {
			fmt.Println(o.script.render(o, nil, nil))
		}
	}
}


func cmdRanges(args []string) {
	eng, err := loadEngine("/repo", nil)
	if err != nil {
		fmt.Fprintln(os.Stderr, err)
		os.Exit(2)
	}
	for _, r := range eng.mapRanges() {
		fmt.Println(r.fn.String(), r.pos, r.rng.X.Type())
	}
}
