package main

// Which locations can a function change in objects that already existed when it was called?
//
// mods[fn] (modset.go) says which abstract locations fn may write at all; it is type-and-field
// based, so a function that merely fills a struct local or builds a fresh slice "writes" the same
// locations as one that updates shared objects.  nonFresh[fn] is the subset of mods[fn] for which
// some write may hit an object that existed before the call:
//
//   * a store whose address is not rooted at an Alloc of the same function,
//   * an append/copy into a slice that is not grown locally (see locallyGrown),
//   * a map update / delete, a write to a package-level variable,
//   * a call of a function for which the location is non-fresh (closures included),
//   * everything, if the function makes a dynamic call.
//
// For the other locations of mods[fn] every write goes into an object allocated during the call,
// hence above the caller's allocation frontier: when a call is abstracted by its contract or by a
// havoc, those locations keep their values at every reference that existed at the call
// (Frame.preserveBelowFrontier).

import (
	"fmt"
	"go/token"
	"go/types"

	"golang.org/x/tools/go/ssa"
)

// a slice value that can only refer to arrays allocated by the current invocation: nil, make(..),
// append(locally grown, ..), or a phi of such values
func locallyGrown(v ssa.Value, seen map[ssa.Value]bool) bool {
	if seen[v] {
		return true
	}
	seen[v] = true
	switch x := v.(type) {
	case *ssa.Const:
		return x.IsNil()
	case *ssa.MakeSlice:
		return true
	case *ssa.Slice:
		// slice of a local array (new [n]T) or of a locally grown slice
		if a := rootAllocOfAddr(x.X); a != nil {
			return true
		}
		return locallyGrown(x.X, seen)
	case *ssa.Phi:
		for _, e := range x.Edges {
			if !locallyGrown(e, seen) {
				return false
			}
		}
		return true
	case *ssa.Call:
		if b, ok := x.Call.Value.(*ssa.Builtin); ok && b.Name() == "append" {
			return locallyGrown(x.Call.Args[0], seen)
		}
	}
	return false
}

// an address inside an object allocated by the current invocation: a local Alloc, or an element of
// a slice that can only refer to arrays made by this invocation
func freshRootedAddr(v ssa.Value) bool {
	for {
		switch x := v.(type) {
		case *ssa.Alloc:
			return true
		case *ssa.Call:
			return isFreshCall(x) // t := NewT(..); t.f = ..
		case *ssa.FieldAddr:
			v = x.X
		case *ssa.IndexAddr:
			if _, isSlice := x.X.Type().Underlying().(*types.Slice); isSlice {
				return freshSliceValue(x.X, map[ssa.Value]bool{})
			}
			v = x.X
		default:
			return false
		}
	}
}

// locallyGrown, or the value of a slice field of a private local object (an Alloc that is only
// read, written field by field and returned - never passed on or stored before) all of whose
// assignments in this function are themselves such slices (result.variants = make(..) ... result.variants[i] = ..)
func freshSliceValue(v ssa.Value, seen map[ssa.Value]bool) bool {
	if seen[v] {
		return true
	}
	seen[v] = true
	switch x := v.(type) {
	case *ssa.Const:
		return x.IsNil()
	case *ssa.MakeSlice:
		return true
	case *ssa.Slice:
		if a := rootAllocOfAddr(x.X); a != nil {
			return true
		}
		return freshSliceValue(x.X, seen)
	case *ssa.Phi:
		for _, e := range x.Edges {
			if !freshSliceValue(e, seen) {
				return false
			}
		}
		return true
	case *ssa.Call:
		if b, ok := x.Call.Value.(*ssa.Builtin); ok && b.Name() == "append" {
			return freshSliceValue(x.Call.Args[0], seen)
		}
		return false
	case *ssa.UnOp:
		if x.Op != token.MUL {
			return false
		}
		fa, ok := x.X.(*ssa.FieldAddr)
		if !ok {
			return false
		}
		var a ssa.Value
		switch r := fa.X.(type) {
		case *ssa.Alloc:
			a = r // fields start as zero values
		case *ssa.Call:
			// an object made by a callee that stores no slice into anything: its slice fields are nil
			if isFreshCall(r) && returnsFlat[r.Call.Value.(*ssa.Function)] {
				a = r
			}
		}
		if a == nil || !privateAlloc(a) {
			return false
		}
		for _, u := range *a.Referrers() {
			fa2, ok := u.(*ssa.FieldAddr)
			if !ok || fa2.Field != fa.Field {
				continue
			}
			for _, u2 := range *fa2.Referrers() {
				if st, ok := u2.(*ssa.Store); ok && st.Addr == fa2 {
					if !freshSliceValue(st.Val, seen) {
						return false
					}
				}
			}
		}
		return true
	}
	return false
}

// the Alloc's address is used only to address its fields (loaded, stored to, indexed) and as a
// return value: no callee and no other object can have changed its fields
func privateAlloc(a ssa.Value) bool {
	for _, u := range *a.Referrers() {
		switch x := u.(type) {
		case *ssa.FieldAddr:
			for _, u2 := range *x.Referrers() {
				switch y := u2.(type) {
				case *ssa.Store:
					if y.Addr != x {
						return false // the field's address itself is stored somewhere
					}
				case *ssa.UnOp, *ssa.DebugRef:
				default:
					return false
				}
			}
		case *ssa.Return, *ssa.DebugRef:
		default:
			return false
		}
	}
	return true
}

// functions whose every return value is an object allocated by the call (directly, or by another
// such function): `return &T{..}`.  Least fixpoint, so recursion counts as "not known".
var returnsFresh = map[*ssa.Function]bool{}

// returnsFresh functions that store no slice anywhere (and return only objects made by such
// functions): every slice field of the returned object is nil
var returnsFlat = map[*ssa.Function]bool{}

func isFreshCall(c *ssa.Call) bool {
	if c.Call.IsInvoke() {
		return false
	}
	fn, ok := c.Call.Value.(*ssa.Function)
	return ok && returnsFresh[fn]
}

func (e *Engine) computeReturnsFresh() {
	returnsFresh = map[*ssa.Function]bool{}
	for changed := true; changed; {
		changed = false
		for _, fn := range e.allFuncs {
			if returnsFresh[fn] || !e.inModule(fn) || fn.Blocks == nil || fn.Signature.Results().Len() != 1 {
				continue
			}
			if _, isPtr := fn.Signature.Results().At(0).Type().Underlying().(*types.Pointer); !isPtr {
				continue
			}
			ok, any := true, false
			for _, b := range fn.Blocks {
				for _, ins := range b.Instrs {
					r, isRet := ins.(*ssa.Return)
					if !isRet {
						continue
					}
					any = true
					switch v := r.Results[0].(type) {
					case *ssa.Alloc:
					case *ssa.Call:
						if !isFreshCall(v) {
							ok = false
						}
					default:
						ok = false
					}
				}
			}
			if ok && any {
				returnsFresh[fn] = true
				changed = true
			}
		}
	}
	returnsFlat = map[*ssa.Function]bool{}
	for changed := true; changed; {
		changed = false
		for fn := range returnsFresh {
			if returnsFlat[fn] {
				continue
			}
			flat := true
			for _, b := range fn.Blocks {
				for _, ins := range b.Instrs {
					switch x := ins.(type) {
					case *ssa.Store:
						if _, isSlice := x.Val.Type().Underlying().(*types.Slice); isSlice {
							flat = false
						}
						if isStruct(x.Val.Type()) {
							flat = false // whole-struct copy may carry slices
						}
					case *ssa.Return:
						if c, ok := x.Results[0].(*ssa.Call); ok && !returnsFlat[c.Call.Value.(*ssa.Function)] {
							flat = false
						}
					case ssa.CallInstruction:
						// any other call could fill the object: only calls whose result is returned are allowed
						if cv, ok := ins.(*ssa.Call); !ok || !returnedOnly(cv) {
							flat = false
						}
					}
				}
			}
			if flat {
				returnsFlat[fn] = true
				changed = true
			}
		}
	}
}

// the call's result is used only as a return value
func returnedOnly(c *ssa.Call) bool {
	for _, u := range *c.Referrers() {
		switch u.(type) {
		case *ssa.Return, *ssa.DebugRef:
		default:
			return false
		}
	}
	return true
}

func (e *Engine) computeNonFresh() {
	e.computeReturnsFresh()
	e.nonFresh = map[*ssa.Function]map[string]bool{}
	type info struct{ callees []*ssa.Function }
	infos := map[*ssa.Function]*info{}
	var work []*ssa.Function
	for _, fn := range e.allFuncs {
		if !e.inModule(fn) || fn.Blocks == nil {
			continue
		}
		nf := map[string]bool{}
		var callees []*ssa.Function
		all := false
		for _, b := range fn.Blocks {
			for _, ins := range b.Instrs {
				switch x := ins.(type) {
				case *ssa.Store:
					if freshRootedAddr(x.Addr) {
						continue // a local object of this invocation, or an element of a slice it made
					}
					var m ModSet
					addStoreLocs(&m, x.Addr)
					if m.Top {
						all = true
					}
					for l := range m.Locs {
						nf[l] = true
					}
				case *ssa.MapUpdate:
					l, _ := locMapDom(x.Map.Type())
					nf[l] = true
					l, _ = locMapVal(x.Map.Type())
					nf[l] = true
					if g := globalOf(x.Map); g != "" {
						nf[mapWritesLoc(g)] = true
					}
				case ssa.CallInstruction:
					c := x.Common()
					if c.IsInvoke() {
						callees = append(callees, e.implementations(c)...)
						continue
					}
					switch v := c.Value.(type) {
					case *ssa.Builtin:
						switch v.Name() {
						case "append":
							if freshSliceValue(c.Args[0], map[ssa.Value]bool{}) {
								continue
							}
							fallthrough
						case "copy":
							if v.Name() == "copy" && freshSliceValue(c.Args[0], map[ssa.Value]bool{}) {
								continue
							}
							if st, ok := c.Args[0].Type().Underlying().(*types.Slice); ok {
								var m ModSet
								if isStruct(st.Elem()) {
									addStructLeaves(&m, st.Elem())
								} else {
									l, li := locElem(st.Elem())
									m.add(l, li)
								}
								for l := range m.Locs {
									nf[l] = true
								}
							}
						case "delete", "clear":
							if _, ok := c.Args[0].Type().Underlying().(*types.Map); ok {
								l, _ := locMapDom(c.Args[0].Type())
								nf[l] = true
								l, _ = locMapVal(c.Args[0].Type())
								nf[l] = true
							}
						}
					case *ssa.Function:
						if e.inModule(v) {
							callees = append(callees, v)
						} else {
							// external functions write through their arguments: never fresh
							for l := range externalMod(v, c).Locs {
								nf[l] = true
							}
							if externalMod(v, c).Top {
								all = true
							}
						}
					case *ssa.MakeClosure:
						callees = append(callees, v.Fn.(*ssa.Function))
					default:
						all = true
					}
				}
			}
		}
		callees = append(callees, fn.AnonFuncs...)
		if all {
			nf["*"] = true
		}
		e.nonFresh[fn] = nf
		infos[fn] = &info{callees}
		work = append(work, fn)
	}
	for changed := true; changed; {
		changed = false
		for _, fn := range work {
			nf := e.nonFresh[fn]
			for _, c := range infos[fn].callees {
				for l := range e.nonFresh[c] {
					if !nf[l] {
						nf[l] = true
						changed = true
					}
				}
			}
		}
	}
}

// locations of fn's mod-set that fn changes only in objects it allocates itself
func (e *Engine) freshOnlyOf(fn *ssa.Function, m ModSet) map[string]bool {
	nf, ok := e.nonFresh[fn]
	if !ok || nf["*"] || m.Top {
		return nil
	}
	out := map[string]bool{}
	for l := range m.Locs {
		if !nf[l] {
			out[l] = true
		}
	}
	return out
}

// after a havoc of `mod` that took the state from pre to f.cur: the locations in fresh keep their
// values at every reference that existed in pre
func (f *Frame) preserveBelowFrontier(pre *State, mod ModSet, fresh map[string]bool) {
	vc := f.vc
	if len(fresh) == 0 || mod.Top {
		return
	}
	a0 := vc.he.get(pre, "ALLOC", "Int")
	for _, l := range sortedKeys(mod.Locs) {
		if !fresh[l] {
			continue
		}
		switch mod.Locs[l].Kind {
		case "F", "C", "E":
			srt := mod.Locs[l].sort(vc.te)
			h1 := vc.he.get(f.cur, l, srt)
			h0 := vc.he.get(pre, l, srt)
			if h1 == h0 {
				continue
			}
			vc.sc.decl("own", "(declare-fun own (Int) Int)")
			existed := fmt.Sprintf("(or (and (<= 0 r) (<= r %s)) (and (< r 0) (<= (own r) %s)))", a0, a0)
			f.assume(fmt.Sprintf("(forall ((r Int)) (! (=> %s (= (select %s r) (select %s r))) :pattern ((select %s r))))", existed, h1, h0, h1))
		}
	}
}
