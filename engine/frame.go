package main

// Def-use frame obligations (`usesonly`): a value may flow only into the named callees.
// Decided on the SSA def-use graph; no solver involved (the obligation's goal is the constant
// true or false, so it is still counted, reported and named like every other obligation).

import (
	"fmt"
	"strings"

	"golang.org/x/tools/go/ssa"
)

func calleeName(c *ssa.CallCommon) string {
	if c.IsInvoke() {
		return c.Method.Name()
	}
	switch v := c.Value.(type) {
	case *ssa.Function:
		return v.String()
	case *ssa.Builtin:
		return v.Name()
	case *ssa.MakeClosure:
		return v.Fn.(*ssa.Function).String()
	}
	return "?"
}

func allowedCallee(name string, allowed []string) bool {
	for _, a := range allowed {
		if a == name || strings.HasSuffix(name, "."+a) || strings.HasSuffix(name, ")."+a) {
			return true
		}
	}
	return name == "len"
}

func (vc *VC) usesOnlyObligations(fn *ssa.Function, ct *Contract) {
	for i, u := range ct.UsesOnly {
		var roots []ssa.Value
		if strings.HasPrefix(u.Value, "result-of:") {
			want := strings.TrimPrefix(u.Value, "result-of:")
			for _, b := range fn.Blocks {
				for _, ins := range b.Instrs {
					if c, ok := ins.(*ssa.Call); ok && allowedCallee(calleeName(&c.Call), []string{want}) && calleeName(&c.Call) != "len" {
						roots = append(roots, c)
					}
				}
			}
		} else {
			for _, p := range fn.Params {
				if p.Name() == u.Value {
					roots = append(roots, p)
				}
			}
		}
		goal := "true"
		desc := "the value " + u.Value + " is used only as an argument of " + strings.Join(u.Allowed, ", ")
		if len(roots) == 0 {
			goal = "false"
			desc += " (value not found in the current source)"
		}
		var bad []string
		for _, r := range roots {
			for _, ref := range *r.Referrers() {
				switch x := ref.(type) {
				case *ssa.DebugRef:
				case ssa.CallInstruction:
					c := x.Common()
					isArg := false
					for _, a := range c.Args {
						if a == r {
							isArg = true
						}
					}
					if !isArg || !allowedCallee(calleeName(c), u.Allowed) {
						bad = append(bad, fmt.Sprintf("%s at %s", calleeName(c), vc.pos(x.Pos())))
					}
				default:
					bad = append(bad, fmt.Sprintf("%T at %s", ref, vc.pos(ref.Pos())))
				}
			}
		}
		if len(bad) > 0 {
			goal = "false"
			desc += "; other uses: " + strings.Join(bad, "; ")
		}
		ob := &Obligation{Name: fmt.Sprintf("%s/frame:usesonly.%d#0", fn.String(), i), Kind: "frame", Func: fn.String(), Goal: goal, Desc: desc, Claimed: true, Tags: u.Tags}
		vc.sc.oblige(ob)
	}
}
