package main

import "strings"

// quantifier-bound variables are named bv!!<name>; a term mentioning one cannot be given a
// name (define-fun) outside its quantifier
const boundPrefix = "bv!!"

func hasBound(term string) bool { return strings.Contains(term, boundPrefix) }
