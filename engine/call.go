package main

// Calls: builtins, external (stdlib) models, contracts, inlining, havoc.

import (
	"os"
	"fmt"
	"go/token"
	"go/types"
	"strings"

	"golang.org/x/tools/go/ssa"
)

const (
	maxInlineBlocks = 40
	maxInlineDepth  = 4
)

// inlining limits of the function under verification (contract: `inline <blocks> <depth>`)
func (vc *VC) inlineLimits() (int, int) {
	if vc.contract != nil && vc.contract.InlineBlocks > 0 {
		return vc.contract.InlineBlocks, vc.contract.InlineDepth
	}
	return maxInlineBlocks, maxInlineDepth
}

func (f *Frame) call(instr ssa.Instruction, c *ssa.CallCommon, result ssa.Value) bool {
	vc := f.vc
	var res Val
	term := false
	f.siteCall(instr, c)
	// ghost "was called" flags count the direct calls of the function under verification only:
	// whatever the callee does (even a havoc of everything) leaves them as they are
	var ghosts map[string]string
	if f.top && vc.contract != nil && vc.pure == 0 {
		for _, t := range vc.contract.trackedCalls() {
			if ghosts == nil {
				ghosts = map[string]string{}
			}
			ghosts[calledLoc(t)] = vc.he.get(f.cur, calledLoc(t), "Bool")
		}
		defer func() {
			for l, v := range ghosts {
				vc.he.set(f.cur, l, "Bool", v)
			}
			f.noteCalled(c)
		}()
	}
	if c.IsInvoke() {
		res, term = f.invoke(c, instr.Pos())
	} else {
		switch v := c.Value.(type) {
		case *ssa.Builtin:
			res, term = f.builtin(v, c, instr.Pos())
		case *ssa.Function:
			var args []Val
			for _, a := range c.Args {
				args = append(args, f.val(a))
			}
			res, term = f.callFunction(v, args, nil, c, instr.Pos())
		default:
			fv := f.val(c.Value)
			var args []Val
			for _, a := range c.Args {
				args = append(args, f.val(a))
			}
			if fv.fn != nil {
				res, term = f.callFunction(fv.fn, args, fv.bind, c, instr.Pos())
			} else {
				// unknown function value: havoc everything
				f.safe("nil", not(eq(f.materialize(fv), "0")), "call of possibly nil function value "+c.Value.Name(), instr.Pos())
				f.havocKeeping(f.cur, ModSet{Top: true}, "?dynamic")
				res = vc.freshResult(f, c.Signature().Results(), "dyncall")
			}
		}
	}
	if term {
		return true
	}
	if result != nil {
		f.vals[result] = res
	}
	return false
}

func (vc *VC) freshResult(f *Frame, results *types.Tuple, name string) Val {
	switch results.Len() {
	case 0:
		return Val{}
	case 1:
		v := vc.freshVal("ret:"+name, results.At(0).Type())
		f.assume(f.tinv(results.At(0).Type(), v.t))
		return v
	}
	v := vc.freshVal("ret:"+name, results)
	for i := range v.tup {
		f.assume(f.tinv(v.tup[i].typ, v.tup[i].t))
	}
	return v
}

func (f *Frame) invoke(c *ssa.CallCommon, pos token.Pos) (Val, bool) {
	vc := f.vc
	recv := f.val(c.Value)
	f.safe("nil", not(eq(app("i_tag", recv.t), "0")), "method call on possibly nil interface "+c.Value.Name()+"."+c.Method.Name(), pos)
	for _, a := range c.Args {
		_ = f.val(a)
	}
	// error.Error() and friends on external interfaces: pure
	impls := vc.eng.implementations(c)
	key := "iface:" + c.Method.FullName()
	if ct := vc.eng.contracts[key]; ct != nil {
		var args []Val
		args = append(args, recv)
		for _, a := range c.Args {
			args = append(args, f.val(a))
		}
		var names []string
		names = append(names, "recv")
		sig := c.Signature()
		for i := 0; i < sig.Params().Len(); i++ {
			names = append(names, sig.Params().At(i).Name())
		}
		var m ModSet
		for _, im := range impls {
			m.union(vc.eng.modOf(im))
		}
		return f.applyContract(ct, names, args, sig.Results(), m, c.Method.Name(), pos, false), false
	}
	var m ModSet
	for _, im := range impls {
		m.union(vc.eng.modOf(im))
	}
	ipkg := "?iface"
	if c.Method.Pkg() != nil {
		ipkg = c.Method.Pkg().Path()
	}
	f.havocKeeping(f.cur, m, ipkg)
	return vc.freshResult(f, c.Signature().Results(), c.Method.Name()), false
}

func (f *Frame) builtin(b *ssa.Builtin, c *ssa.CallCommon, pos token.Pos) (Val, bool) {
	vc := f.vc
	te := vc.te
	intT := types.Typ[types.Int]
	switch b.Name() {
	case "len":
		v := f.val(c.Args[0])
		switch t := c.Args[0].Type().Underlying().(type) {
		case *types.Slice:
			return Val{t: app("s_len", v.t), typ: intT}, false
		case *types.Basic:
			return Val{t: app("str.len", v.t), typ: intT}, false
		case *types.Map:
			fn := sym("maplen:" + mapLocKey(c.Args[0].Type()))
			l, li := locMapDom(c.Args[0].Type())
			srt := "(Array " + te.sortOf(t.Key()) + " Bool)"
			vc.sc.decl(fn, fmt.Sprintf("(declare-fun %s (%s) Int)", fn, srt))
			r := vc.sc.define("maplen", "Int", app(fn, app("select", vc.he.get(f.cur, l, li.sort(te)), v.t)))
			f.assume(app(">=", r, "0"))
			f.assume(implies(eq(v.t, "0"), eq(r, "0")))
			return Val{t: r, typ: intT}, false
		case *types.Array:
			return Val{t: num(t.Len()), typ: intT}, false
		case *types.Pointer:
			if at, ok := t.Elem().Underlying().(*types.Array); ok {
				return Val{t: num(at.Len()), typ: intT}, false
			}
		}
	case "cap":
		v := f.val(c.Args[0])
		if _, ok := c.Args[0].Type().Underlying().(*types.Slice); ok {
			return Val{t: app("s_cap", v.t), typ: intT}, false
		}
	case "append":
		return f.appendOp(c, pos), false
	case "copy":
		dst := f.val(c.Args[0])
		src := f.val(c.Args[1])
		st := c.Args[0].Type().Underlying().(*types.Slice)
		var m ModSet
		if isStruct(st.Elem()) {
			addStructLeaves(&m, st.Elem())
		} else {
			l, li := locElem(st.Elem())
			m.add(l, li)
		}
		vc.he.havoc(f.cur, m)
		n := vc.sc.freshConst("copy.n", "Int")
		var srcLen string
		if _, isStr := c.Args[1].Type().Underlying().(*types.Basic); isStr {
			srcLen = app("str.len", src.t)
		} else {
			srcLen = app("s_len", src.t)
		}
		f.assume(and(app(">=", n, "0"), app("<=", n, app("s_len", dst.t)), app("<=", n, srcLen)))
		vc.note("copy() in %s: destination elements havocked", f.fn)
		return Val{t: n, typ: intT}, false
	case "delete":
		m := f.val(c.Args[0])
		k := f.materialize(f.val(c.Args[1]))
		l, li := locMapDom(c.Args[0].Type())
		srt := li.sort(te)
		h := vc.he.get(f.cur, l, srt)
		vc.he.set(f.cur, l, srt, ite(eq(m.t, "0"), h, app("store", h, m.t, app("store", app("select", h, m.t), k, "false"))))
		return Val{}, false
	case "panic":
		f.safe("panic", "false", "explicit panic reachable", pos)
		return Val{}, true
	case "print", "println":
		return Val{}, false
	case "min", "max":
		a, bb := f.val(c.Args[0]), f.val(c.Args[1])
		if len(c.Args) == 2 && te.sortOf(a.typ) == "Int" {
			if b.Name() == "min" {
				return Val{t: ite(app("<=", a.t, bb.t), a.t, bb.t), typ: a.typ}, false
			}
			return Val{t: ite(app(">=", a.t, bb.t), a.t, bb.t), typ: a.typ}, false
		}
	case "recover":
		return Val{t: "(mk_iface 0 0)", typ: types.NewInterfaceType(nil, nil)}, false
	}
	unsupported("builtin %s in %s", b.Name(), f.fn)
	return Val{}, false
}

// append(s, elems...) : args[1] is a slice (variadic packed) or a string
func (f *Frame) appendOp(c *ssa.CallCommon, pos token.Pos) Val {
	vc := f.vc
	te := vc.te
	s := f.val(c.Args[0])
	x := f.val(c.Args[1])
	st := c.Args[0].Type().Underlying().(*types.Slice)
	et := st.Elem()
	arr, off, ln, cp := sliceParts(s.t)
	var n string
	xIsStr := false
	if _, ok := c.Args[1].Type().Underlying().(*types.Basic); ok {
		n = app("str.len", x.t)
		xIsStr = true
	} else {
		n = app("s_len", x.t)
	}
	n = vc.sc.define("app.n", "Int", n)
	newLen := vc.sc.define("app.len", "Int", app("+", ln, n))
	inplace := vc.sc.define("app.inplace", "Bool", app("<=", newLen, cp))
	fresh := f.freshRef("app.arr")
	ncap := vc.sc.freshConst("app.cap", "Int")
	f.assume(app(">=", ncap, newLen))
	// n == 0 and nil slice: Go returns the original slice
	// declared constants (not macros) so that quantifier patterns below stay free of ite
	resArr := vc.sc.freshConst("app.resArr", "Int")
	resOff := vc.sc.freshConst("app.resOff", "Int")
	vc.sc.assume(and(eq(resArr, ite(inplace, arr, fresh)), eq(resOff, ite(inplace, off, "0"))))
	resCap := ite(inplace, cp, ncap)
	res := vc.sc.define("app.res", sortSlice, app("mk_slice", resArr, resOff, newLen, resCap))
	if isStruct(et) {
		// struct elements: element i of the result lives at elem(resArr, resOff+i).  In-place: only the new
		// elements are written.  Fresh array: prefix copied (quantified per leaf field).
		var m ModSet
		addStructLeaves(&m, et)
		old := f.cur.clone()
		for _, l := range sortedKeys(m.Locs) {
			li := m.Locs[l]
			srt := li.sort(te)
			h0 := vc.he.get(old, l, srt)
			h1 := vc.sc.freshConst("H:"+l+"@app", srt)
			vc.he.locSort[l] = srt
			f.cur.loc[l] = h1
			vc.sc.decl("elem", "(declare-fun elem (Int Int) Int)")
			vc.elemRef("0", "0")
			// frame: every object that is not an element slot [ln, newLen) of the result keeps its value;
			// for the fresh array additionally the prefix is copied.
			f.assume(fmt.Sprintf("(forall ((r Int)) (! (=> (not (and (= (elem_arr r) %s) (= r (elem (elem_arr r) (elem_idx r))) (>= (elem_idx r) (+ %s %s)) (< (elem_idx r) (+ %s %s)))) (or (and (not %s) (= (elem_arr r) %s) (= r (elem (elem_arr r) (elem_idx r)))) (= (select %s r) (select %s r)))) :pattern ((select %s r))))",
				resArr, resOff, ln, resOff, newLen, inplace, fresh, h1, h0, h1))
			f.assume(implies(not(inplace), fmt.Sprintf("(forall ((i Int)) (! (=> (and (<= 0 i) (< i %s)) (= (select %s (elem %s i)) (select %s (elem %s (+ %s i))))) :pattern ((select %s (elem %s i)))))",
				ln, h1, fresh, h0, arr, off, h1, fresh)))
			// the same fact in the result's own coordinates (holds in place and for the fresh array):
			// quantified specifications index the result as elem(resArr, resOff+i), and a trigger in
			// exactly that shape avoids nested sums that E-matching cannot see through
			f.assume(fmt.Sprintf("(forall ((k Int)) (! (=> (and (<= %s k) (< k (+ %s %s))) (= (select %s (elem %s k)) (select %s (elem %s (+ k (- %s %s)))))) :pattern ((elem %s k))))",
				resOff, resOff, ln, h1, resArr, h0, arr, off, resOff, resArr))
		}
		// appended elements: element j of x
		if !xIsStr {
			xarr, xoff, _, _ := sliceParts(x.t)
			// single-element appends are the common case: make it quantifier free
			for _, l := range sortedKeys(m.Locs) {
				li := m.Locs[l]
				srt := li.sort(te)
				h0 := vc.he.get(old, l, srt)
				h1 := f.cur.loc[l]
				f.assume(fmt.Sprintf("(forall ((j Int)) (! (=> (and (<= 0 j) (< j %s)) (= (select %s (elem %s (+ %s %s j))) (select %s (elem %s (+ %s j))))) :pattern ((select %s (elem %s (+ %s %s j))))))",
					n, h1, resArr, resOff, ln, h0, xarr, xoff, h1, resArr, resOff, ln))
				f.assume(implies(app(">=", n, "1"), eq(app("select", h1, vc.elemRef(resArr, app("+", resOff, ln))), app("select", h0, vc.elemRef(xarr, xoff)))))
				// (and the second one: two-element literals such as []T{a, b} are appended whole)
				f.assume(implies(app(">=", n, "2"), eq(app("select", h1, vc.elemRef(resArr, app("+", resOff, ln, "1"))), app("select", h0, vc.elemRef(xarr, app("+", xoff, "1"))))))
			}
			// "the last element" as specifications write it (s[len(s)-1]) is the appended one
			f.assume(implies(eq(n, "1"), eq(vc.elemRef(resArr, app("+", resOff, app("-", newLen, "1"))), vc.elemRef(resArr, app("+", resOff, ln)))))
			// nested struct leaves are addressed through sub-references of the element reference; the
			// assumptions above cover direct leaves only.
			if hasNestedStruct(et) {
				vc.note("append of structs with nested structs in %s: nested leaves unconstrained", f.fn)
			}
		}
		f.assume(f.tinv(c.Args[0].Type(), res))
		return Val{t: res, typ: c.Args[0].Type()}
	}
	l, li := locElem(et)
	srt := li.sort(te)
	h0 := vc.he.get(f.cur, l, srt)
	esrt := te.sortOf(et)
	rowSort := "(Array Int " + esrt + ")"
	// new row of the result array (absolute indices k)
	row := vc.sc.freshConst("app.row", rowSort)
	srcRow := vc.sc.define("app.src", rowSort, app("select", h0, arr))
	d := vc.sc.define("app.shift", "Int", app("-", off, resOff)) // source index = k + d
	// prefix preserved
	f.assume(fmt.Sprintf("(forall ((k Int)) (! (=> (and (<= %s k) (< k (+ %s %s))) (= (select %s k) (select %s (+ k %s)))) :pattern ((select %s k))))",
		resOff, resOff, ln, row, srcRow, d, row))
	// in place: everything outside the appended range is preserved
	f.assume(implies(inplace, fmt.Sprintf("(forall ((k Int)) (! (=> (or (< k (+ %s %s)) (>= k (+ %s %s))) (= (select %s k) (select %s k))) :pattern ((select %s k))))",
		off, ln, off, newLen, row, srcRow, row)))
	start := vc.sc.define("app.start", "Int", app("+", resOff, ln))
	if xIsStr {
		f.assume(fmt.Sprintf("(forall ((k Int)) (! (=> (and (<= %s k) (< k (+ %s %s))) (= (select %s k) (str.to_code (str.at %s (- k %s))))) :pattern ((select %s k))))",
			start, start, n, row, x.t, start, row))
	} else {
		xarr, xoff, _, _ := sliceParts(x.t)
		xRow := vc.sc.define("app.xrow", rowSort, app("select", h0, xarr))
		f.assume(fmt.Sprintf("(forall ((k Int)) (! (=> (and (<= %s k) (< k (+ %s %s))) (= (select %s k) (select %s (+ (- k %s) %s)))) :pattern ((select %s k))))",
			start, start, n, row, xRow, start, xoff, row))
		// quantifier-free instances for the first two appended elements (the common cases)
		f.assume(implies(app(">=", n, "1"), eq(app("select", row, start), app("select", xRow, xoff))))
		f.assume(implies(app(">=", n, "2"), eq(app("select", row, app("+", start, "1")), app("select", xRow, app("+", xoff, "1")))))
	}
	// quantifier-free instances of the prefix for the first two elements
	f.assume(implies(app(">=", ln, "1"), eq(app("select", row, resOff), app("select", srcRow, off))))
	f.assume(implies(app(">=", ln, "2"), eq(app("select", row, app("+", resOff, "1")), app("select", srcRow, app("+", off, "1")))))
	vc.he.set(f.cur, l, srt, app("store", h0, resArr, row))
	f.assume(f.tinv(c.Args[0].Type(), res))
	return Val{t: res, typ: c.Args[0].Type()}
}

func hasNestedStruct(t types.Type) bool {
	u := t.Underlying().(*types.Struct)
	for i := 0; i < u.NumFields(); i++ {
		if isStruct(u.Field(i).Type()) {
			return true
		}
	}
	return false
}

// callFunction: static call of fn with evaluated arguments
func (f *Frame) callFunction(fn *ssa.Function, args []Val, bind []Val, c *ssa.CallCommon, pos token.Pos) (Val, bool) {
	vc := f.vc
	eng := vc.eng
	sig := fn.Signature
	if !eng.inModule(fn) {
		return f.external(fn, args, c, pos)
	}
	if fn.Blocks == nil {
		vc.he.havoc(f.cur, ModSet{Top: true})
		return vc.freshResult(f, sig.Results(), fn.Name()), false
	}
	// implicit precondition: a method that dereferences its receiver/pointer parameter unconditionally
	for i, p := range fn.Params {
		if i < len(args) && eng.derefsUnconditionally(fn, p) {
			f.safe("nil", not(eq(f.materialize(args[i]), "0")), fmt.Sprintf("argument %s of %s is dereferenced unconditionally", p.Name(), fn.Name()), pos)
		}
	}
	ct := eng.contracts[fn.String()]
	// `transparent`: the contract is proved for the function on its own, but a caller that can
	// inline the body does so (it then sees the exact result, not only the postconditions)
	seeThrough := false
	if ct != nil && ct.Transparent && fn != vc.top && len(ct.Requires) == 0 {
		onSt := false
		for _, s := range vc.stack {
			if s == fn {
				onSt = true
			}
		}
		mb, md := vc.inlineLimits()
		seeThrough = !onSt && vc.depth < md && len(fn.Blocks) <= mb && len(fn.FreeVars) == len(bind)
		// `bycontract <callee>` in the caller's contract: use that callee's postconditions here
		if vc.contract != nil && vc.contract.ByContract[fn.Name()] {
			seeThrough = false
		}
		if os.Getenv("VERIF_DEBUG_INLINE") != "" {
			fmt.Fprintf(os.Stderr, "transparent %s in %s: depth=%d md=%d blocks=%d mb=%d pure=%d stack=%v -> %v\n", fn, vc.top, vc.depth, md, len(fn.Blocks), mb, vc.pure, vc.stack, seeThrough)
		}
	}
	if ct != nil && !seeThrough && (len(ct.Ensures) > 0 || len(ct.Requires) > 0 || ct.Modular || fn == vc.top) && vc.pure == 0 {
		var names []string
		for _, p := range fn.Params {
			names = append(names, p.Name())
		}
		m := eng.modOf(fn)
		if c != nil {
			for _, a := range c.Args {
				if mc, ok := a.(*ssa.MakeClosure); ok {
					m.union(eng.modOf(mc.Fn.(*ssa.Function)))
				}
			}
		}
		return f.applyContractFn(ct, fn, names, args, m, pos), false
	}
	// inline?
	onStack := false
	for _, s := range vc.stack {
		if s == fn {
			onStack = true
		}
	}
	mb, md := vc.inlineLimits()
	if !onStack && vc.depth < md && len(fn.Blocks) <= mb && len(fn.FreeVars) == len(bind) {
		return f.inline(fn, args, bind)
	}
	// havoc
	m := eng.modOf(fn)
	preH := f.cur.clone()
	f.havocKeeping(f.cur, m, pkgOfFn(fn))
	f.preserveBelowFrontier(preH, m, eng.freshOnlyOf(fn, m))
	return vc.freshResult(f, sig.Results(), fn.Name()), false
}

func (f *Frame) inline(fn *ssa.Function, args []Val, bind []Val) (Val, bool) {
	vc := f.vc
	short := fn.Name()
	if fn.Signature.Recv() != nil {
		short = strings.TrimPrefix(types.TypeString(fn.Signature.Recv().Type(), func(*types.Package) string { return "" }), "*") + "." + fn.Name()
	}
	nf := vc.newFrame(fn, args, f.cur.clone(), f.reach[f.curB], false, f.prefix+"inl:"+short+"/")
	for i, fv := range fn.FreeVars {
		nf.vals[fv] = bind[i]
	}
	vc.depth++
	vc.stack = append(vc.stack, fn)
	nf.run(f.reach[f.curB])
	vc.stack = vc.stack[:len(vc.stack)-1]
	vc.depth--
	if len(nf.rets) == 0 {
		return Val{}, true
	}
	var ins []condState
	var conds []string
	for _, r := range nf.rets {
		ins = append(ins, condState{r.cond, r.st})
		conds = append(conds, r.cond)
	}
	f.cur = vc.he.merge(ins)
	// paths of the callee that end in a panic do not return: the continuation is reached only via returns
	retReach := or(conds...)
	if retReach != f.reach[f.curB] {
		// narrow the caller's reachability to "callee returned"
		nr := vc.sc.define("reach:ret:"+short, "Bool", retReach)
		f.reach[f.curB] = nr
	}
	nres := fn.Signature.Results().Len()
	switch nres {
	case 0:
		return Val{}, false
	case 1:
		var vs []Val
		for _, r := range nf.rets {
			vs = append(vs, r.vals[0])
		}
		return f.mergeVals(vs, conds, fn.Signature.Results().At(0).Type(), "ret:"+short), false
	}
	out := Val{typ: fn.Signature.Results()}
	for i := 0; i < nres; i++ {
		var vs []Val
		for _, r := range nf.rets {
			vs = append(vs, r.vals[i])
		}
		out.tup = append(out.tup, f.mergeVals(vs, conds, fn.Signature.Results().At(i).Type(), fmt.Sprintf("ret%d:%s", i, short)))
	}
	return out, false
}

// does fn dereference parameter p in its entry block before any call or branch?
func (e *Engine) derefsUnconditionally(fn *ssa.Function, p *ssa.Parameter) bool {
	if _, ok := p.Type().Underlying().(*types.Pointer); !ok {
		return false
	}
	key := fn.String() + "#" + p.Name()
	if v, ok := e.derefCache[key]; ok {
		return v
	}
	res := false
	if len(fn.Blocks) > 0 {
	loop:
		for _, ins := range fn.Blocks[0].Instrs {
			switch x := ins.(type) {
			case *ssa.FieldAddr:
				if x.X == p {
					res = true
					break loop
				}
			case *ssa.UnOp:
				if x.Op == token.MUL && x.X == p {
					res = true
					break loop
				}
			case *ssa.Store:
				if x.Addr == p {
					res = true
					break loop
				}
			case *ssa.Call, *ssa.If, *ssa.Jump, *ssa.Return, *ssa.Panic, *ssa.Defer:
				break loop
			}
		}
	}
	e.derefCache[key] = res
	return res
}

func (f *Frame) applyContractFn(ct *Contract, fn *ssa.Function, names []string, args []Val, m ModSet, pos token.Pos) Val {
	f.callFresh = f.vc.eng.freshOnlyOf(fn, m)
	f.callSelf = fn
	defer func() { f.callSelf = nil }()
	res := f.applyContract(ct, names, args, fn.Signature.Results(), m, fn.Name(), pos, fn == f.vc.top)
	f.callFresh = nil
	f.noteTokenRead(fn, res, pos)
	return res
}

func (f *Frame) applyContract(ct *Contract, names []string, args []Val, results *types.Tuple, m ModSet, short string, pos token.Pos, recursive bool) Val {
	vc := f.vc
	env := &SpecEnv{f: f, vars: map[string]Val{}, st: f.cur, old: f.cur, pkg: ct.Pkg, self: f.callSelf}
	for i, n := range names {
		if i < len(args) {
			env.vars[n] = args[i]
		}
	}
	for ri, r := range ct.Requires {
		g := env.evalBool(r.Expr)
		// (a contract marked `sitesonly` claims nothing but its site obligations)
		f.oblige(fmt.Sprintf("pre:%s.%d", short, ri), g, fmt.Sprintf("precondition of %s: %s", short, r.Text), pos, nil, !(vc.contract != nil && vc.contract.SitesOnly))
	}
	if recursive && vc.contract != nil && vc.contract.Decr != nil {
		// measure at the call must be smaller than at entry
		cur := f.evalMeasureExprs(ct.Decr.Exprs, env)
		f.oblige("dec:rec", lexLess(cur, vc.topFrame.entryMeasure), "recursive call decreases "+ct.Decr.Text, pos, ct.Decr.Tags, true)
	} else if recursive && vc.contract != nil && vc.contract.Terminates {
		f.oblige("dec:rec", "false", "recursive call without decreases clause", pos, vc.contract.TermTags, true)
	}
	old := f.cur.clone()
	f.havocKeeping(f.cur, m, ct.Pkg)
	f.preserveBelowFrontier(old, m, f.callFresh) // what the callee writes only in its own objects
	res := vc.freshResult(f, results, short)
	post := &SpecEnv{f: f, vars: env.vars, st: f.cur, old: old, pkg: ct.Pkg, self: env.self}
	if results.Len() == 1 {
		post.result = []Val{res}
	} else if results.Len() > 1 {
		post.result = res.tup
	}
	for i := 0; i < results.Len(); i++ {
		if n := results.At(i).Name(); n != "" && n != "_" {
			post.vars[n] = post.result[i]
		}
	}
	for _, e := range ct.Ensures {
		f.assume(post.evalBool(e.Expr))
	}
	return res
}

func lexLess(cur, prev []string) string {
	// (c0 < p0) or (c0 == p0 and (c1 < p1 ...)), with every component bounded below by 0 at the previous point
	if len(cur) == 0 || len(prev) == 0 {
		return "false"
	}
	var rec func(i int) string
	rec = func(i int) string {
		lt := and(app("<", cur[i], prev[i]), app(">=", prev[i], "0"))
		if i == len(cur)-1 {
			return lt
		}
		return or(lt, and(eq(cur[i], prev[i]), rec(i+1)))
	}
	return rec(0)
}
