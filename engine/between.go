package main

// Sequencing frame obligation:
//
//   //@ func F
//   //@   between[Cxx] <A> <B> allow <callee>,<callee>,...   state <pkg>,<pkg>,...
//
// On every path of F from a call of A to the next call of B, the only things executed are
// (1) calls of functions outside the module, (2) calls of the listed callees, whose inferred
// mod-sets must not contain a package-level variable of the `state` packages, a map location or
// TOP, and (3) instructions that write no package-level variable and no map.  In other words
// the analysis state that A leaves behind is exactly the state B starts from.  Decided on the
// SSA form with the inferred mod-sets; one obligation per clause (`F/frame:between.<i>#0`).

import (
	"fmt"
	"go/ast"
	"sort"
	"strings"

	"golang.org/x/tools/go/ssa"
)

type BetweenClause struct {
	A, B   string
	Allow  []string
	State  []string
	Except []string
	Tags   []string
	Text   string
}

func parseBetween(fields []string, tags []string, text string) (BetweenClause, bool) {
	// fields: between A B [allow x,y] [state p,q]
	if len(fields) < 3 {
		return BetweenClause{}, false
	}
	bc := BetweenClause{A: fields[1], B: fields[2], Tags: tags, Text: text}
	for i := 3; i+1 < len(fields); i += 2 {
		switch fields[i] {
		case "allow":
			bc.Allow = strings.Split(fields[i+1], ",")
		case "state":
			bc.State = strings.Split(fields[i+1], ",")
		case "except":
			// locations known not to be analysis state (named in the clause, so visible in the evidence)
			bc.Except = strings.Split(fields[i+1], ",")
		}
	}
	return bc, true
}

func (bc BetweenClause) stateLoc(l string) bool {
	for _, x := range bc.Except {
		if x == l {
			return false
		}
	}
	if strings.HasPrefix(l, "MD:") || strings.HasPrefix(l, "MV:") {
		return true
	}
	if strings.HasPrefix(l, "G:") {
		for _, p := range bc.State {
			if strings.HasPrefix(l, "G:"+p+".") {
				return true
			}
		}
	}
	return false
}

func (vc *VC) betweenObligations(fn *ssa.Function, ct *Contract) {
	e := vc.eng
	for ci, bc := range ct.Between {
		var bad []string
		seenA := 0
		note := func(ins ssa.Instruction, why string) {
			bad = append(bad, fmt.Sprintf("%s (%s)", why, vc.pos(ins.Pos())))
		}
		// classify one instruction lying between A and B
		check := func(ins ssa.Instruction) {
			switch x := ins.(type) {
			case *ssa.Store:
				var m ModSet
				addStoreLocs(&m, x.Addr)
				for l := range m.Locs {
					if bc.stateLoc(l) {
						note(ins, "store to "+l)
					}
				}
			case *ssa.MapUpdate:
				note(ins, "map update")
			case ssa.CallInstruction:
				c := x.Common()
				name := calleeName(c)
				if b, ok := c.Value.(*ssa.Builtin); ok {
					if b.Name() == "delete" {
						note(ins, "delete from a map")
					}
					return
				}
				callee, _ := c.Value.(*ssa.Function)
				if callee == nil {
					if mc, ok := c.Value.(*ssa.MakeClosure); ok {
						callee, _ = mc.Fn.(*ssa.Function)
					}
				}
				if callee == nil {
					if c.IsInvoke() {
						// interface method: external receivers (io.Closer etc.) are outside the module
						impls := e.implementations(c)
						inMod := false
						for _, im := range impls {
							if e.inModule(im) {
								inMod = true
							}
						}
						if inMod {
							note(ins, "dynamic call of "+name)
						}
						return
					}
					note(ins, "call of a function value")
					return
				}
				if !e.inModule(callee) {
					return
				}
				if !allowedCallee(name, bc.Allow) {
					note(ins, "call of "+name)
					return
				}
				m := e.modOf(callee)
				if m.Top {
					note(ins, "allowed callee "+name+" may write anything (dynamic call inside)")
				}
				var ls []string
				for l := range m.Locs {
					if bc.stateLoc(l) {
						ls = append(ls, l)
					}
				}
				sort.Strings(ls)
				if len(ls) > 0 {
					note(ins, "allowed callee "+name+" may write "+strings.Join(ls, ", "))
				}
			}
		}
		isCallOf := func(ins ssa.Instruction, target string) bool {
			c, ok := ins.(ssa.CallInstruction)
			if !ok {
				return false
			}
			return siteTargetMatches(calleeName(c.Common()), target)
		}
		// forward walk from each call of A
		for _, b := range fn.Blocks {
			for i, ins := range b.Instrs {
				if !isCallOf(ins, bc.A) {
					continue
				}
				seenA++
				visited := map[*ssa.BasicBlock]bool{}
				var walk func(bb *ssa.BasicBlock, from int)
				walk = func(bb *ssa.BasicBlock, from int) {
					for j := from; j < len(bb.Instrs); j++ {
						in := bb.Instrs[j]
						if isCallOf(in, bc.B) {
							return
						}
						if isCallOf(in, bc.A) && !(bb == b && j == i) {
							// the next A before any B (A == B is handled by the test above)
							return
						}
						check(in)
					}
					for _, s := range bb.Succs {
						if !visited[s] {
							visited[s] = true
							walk(s, 0)
						}
					}
				}
				walk(b, i+1)
			}
		}
		goal := "true"
		desc := "between a call of " + bc.A + " and the next call of " + bc.B + " nothing writes the analysis state: " + bc.Text
		if seenA == 0 {
			goal = "false"
			desc += "; but the function contains no call of " + bc.A
		} else if len(bad) > 0 {
			goal = "false"
			sort.Strings(bad)
			desc += "; but: " + strings.Join(dedupe(bad), "; ")
		}
		ob := &Obligation{Name: fmt.Sprintf("%s/frame:between.%d#0", fn.String(), ci), Kind: "frame", Func: fn.String(), Goal: goal, Desc: desc, Claimed: true, Tags: bc.Tags}
		vc.sc.oblige(ob)
	}
}

// Pairing obligation:
//
//   //@   paired[Cxx] <A> <B>
//
// every direct call of A in the function is followed, in the same basic block and before any
// other call, by `defer B(...)` on the same receiver / first argument: what A switches on is
// switched off again when the function returns, on every path.  (`F/frame:paired.<i>#0`)
type PairedClause struct {
	A, B string
	Tags []string
}

func (vc *VC) pairedObligations(fn *ssa.Function, ct *Contract) {
	for ci, pc := range ct.Paired {
		var bad []string
		seen := 0
		for _, b := range fn.Blocks {
			for i, ins := range b.Instrs {
				c, ok := ins.(*ssa.Call)
				if !ok || !siteTargetMatches(calleeName(c.Common()), pc.A) {
					continue
				}
				seen++
				okPair := false
			scan:
				for _, nx := range b.Instrs[i+1:] {
					switch y := nx.(type) {
					case *ssa.Defer:
						if siteTargetMatches(calleeName(&y.Call), pc.B) && len(y.Call.Args) > 0 && len(c.Call.Args) > 0 && y.Call.Args[0] == c.Call.Args[0] {
							okPair = true
						}
						break scan
					case ssa.CallInstruction:
						break scan
					}
				}
				if !okPair {
					bad = append(bad, "call at "+vc.pos(c.Pos())+" is not followed by defer "+pc.B)
				}
			}
		}
		goal := "true"
		desc := "every call of " + pc.A + " is followed at once by defer " + pc.B + " on the same receiver"
		if seen == 0 {
			goal = "false"
			desc += "; but the function contains no call of " + pc.A
		} else if len(bad) > 0 {
			goal = "false"
			desc += "; but: " + strings.Join(bad, "; ")
		}
		ob := &Obligation{Name: fmt.Sprintf("%s/frame:paired.%d#0", fn.String(), ci), Kind: "frame", Func: fn.String(), Goal: goal, Desc: desc, Claimed: true, Tags: pc.Tags}
		vc.sc.oblige(ob)
	}
}

// Deferred-only obligation:
//
//   //@   deferredonly[Cxx] <local slice of func values>
//
// the function values stored in that local slice (restore closures handed back by a callee) are
// used in this function in exactly one way: each is the callee of a `defer` executed directly in
// this function, one defer per element, inside a range over the slice.  So they run when the
// function returns, in reverse order of registration - the first one made is the last one run.
// A closure that captures the slice, a direct call, or passing the slice on fails the obligation.
// (`F/frame:deferredonly.<i>#0`)
type DeferredOnlyClause struct {
	Name string
	Tags []string
}

func (vc *VC) deferredOnlyObligations(fn *ssa.Function, ct *Contract) {
	for ci, dc := range ct.DeferredOnly {
		// the SSA value(s) carrying that source name
		vals := map[ssa.Value]bool{}
		for _, b := range fn.Blocks {
			for _, ins := range b.Instrs {
				if d, ok := ins.(*ssa.DebugRef); ok && !d.IsAddr {
					if id, ok := d.Expr.(*ast.Ident); ok && id.Name == dc.Name {
						vals[d.X] = true
					}
				}
			}
		}
		var bad []string
		defers := 0
		var checkElem func(v ssa.Value)
		checkElem = func(v ssa.Value) { // v: one element (func value) of the slice
			for _, r := range *v.Referrers() {
				switch u := r.(type) {
				case *ssa.DebugRef:
				case *ssa.Defer:
					if u.Call.Value == v {
						defers++
					} else {
						bad = append(bad, "passed to a deferred call at "+vc.pos(u.Pos()))
					}
				default:
					bad = append(bad, fmt.Sprintf("used by %T at %s", r, vc.pos(r.Pos())))
				}
			}
		}
		for v := range vals {
			for _, r := range *v.Referrers() {
				switch u := r.(type) {
				case *ssa.DebugRef:
				case *ssa.IndexAddr:
					for _, rr := range *u.Referrers() {
						if ld, ok := rr.(*ssa.UnOp); ok {
							checkElem(ld)
						} else if _, ok := rr.(*ssa.DebugRef); !ok {
							bad = append(bad, fmt.Sprintf("element address used by %T at %s", rr, vc.pos(rr.Pos())))
						}
					}
				case *ssa.Call:
					if b, ok := u.Call.Value.(*ssa.Builtin); ok && b.Name() == "len" {
						continue
					}
					bad = append(bad, "passed to a call at "+vc.pos(u.Pos()))
				case *ssa.Extract, *ssa.Phi:
				default:
					bad = append(bad, fmt.Sprintf("used by %T at %s", r, vc.pos(r.Pos())))
				}
			}
		}
		goal := "true"
		desc := "the function values in " + dc.Name + " are only deferred, one defer each, directly in this function"
		if len(vals) == 0 {
			goal = "false"
			desc += "; but the function has no local of that name"
		} else if len(bad) > 0 || defers == 0 {
			goal = "false"
			sort.Strings(bad)
			if defers == 0 {
				bad = append(bad, "no defer of an element found")
			}
			desc += "; but: " + strings.Join(dedupe(bad), "; ")
		}
		ob := &Obligation{Name: fmt.Sprintf("%s/frame:deferredonly.%d#0", fn.String(), ci), Kind: "frame", Func: fn.String(), Goal: goal, Desc: desc, Claimed: true, Tags: dc.Tags}
		vc.sc.oblige(ob)
	}
}
