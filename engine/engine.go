package main

import (
	"fmt"
	"go/token"
	"go/types"
	"os"
	"sort"
	"strings"

	"golang.org/x/tools/go/packages"
	"golang.org/x/tools/go/ssa"
	"golang.org/x/tools/go/ssa/ssautil"
)

type Engine struct {
	repo          string
	overlay       map[string][]byte
	prog          *ssa.Program
	fset          *token.FileSet
	pkgs          []*packages.Package
	allFuncs      []*ssa.Function
	funcByName    map[string]*ssa.Function
	allNamed      []types.Type
	implCache     map[string][]*ssa.Function
	derefCache    map[string]bool
	mods          map[*ssa.Function]*ModSet
	contracts     map[string]*Contract
	contractOrder []string
	specFuncs     map[string]*SpecFunc
	pkgNames      map[string]string
	loadErrors    []string
	tiBin         string
	modPkgs       []string
	transparent   map[string]bool // abstract predicates being expanded (footprint probing)
	preserved     []Preserved
	readers       []ReadersClause
	writers       []WritersClause
	callers       []CallersClause
	stateless     []StatelessClause
	nonFresh      map[*ssa.Function]map[string]bool // locations a function may change in pre-existing objects
	internal      map[string][]string // function -> packages that may call it
	fpCache       map[string]map[string]bool
	orderSkip     map[string]string
}

func loadEngine(repo string, overlay map[string][]byte) (*Engine, error) {
	e := &Engine{repo: repo, overlay: overlay, implCache: map[string][]*ssa.Function{}, derefCache: map[string]bool{}, pkgNames: map[string]string{}}
	cfg := &packages.Config{Mode: packages.LoadAllSyntax, Dir: repo, BuildFlags: []string{"-tags=verif"}, Overlay: overlay,
		Env: append(os.Environ(), "PATH=/opt/veriftools/go1.26.8/bin:"+os.Getenv("PATH"), "GOFLAGS=-mod=mod", "GOPROXY=off", "GOSUMDB=off", "GOTOOLCHAIN=local")}
	pkgs, err := packages.Load(cfg, "./...")
	if err != nil {
		return nil, err
	}
	for _, p := range pkgs {
		for _, er := range p.Errors {
			e.loadErrors = append(e.loadErrors, er.Error())
		}
	}
	if len(e.loadErrors) > 0 {
		return nil, fmt.Errorf("package errors: %s", strings.Join(e.loadErrors, "; "))
	}
	e.pkgs = pkgs
	// GlobalDebug adds DebugRef instructions (source identifier -> SSA value): they let site
	// obligations name locals that are neither parameters, phis nor address-taken
	prog, _ := ssautil.AllPackages(pkgs, ssa.InstantiateGenerics|ssa.GlobalDebug)
	prog.Build()
	e.prog = prog
	e.fset = prog.Fset
	e.funcByName = map[string]*ssa.Function{}
	for fn := range ssautil.AllFunctions(prog) {
		e.allFuncs = append(e.allFuncs, fn)
	}
	sort.Slice(e.allFuncs, func(i, j int) bool { return e.allFuncs[i].String() < e.allFuncs[j].String() })
	for _, fn := range e.allFuncs {
		if _, dup := e.funcByName[fn.String()]; !dup {
			e.funcByName[fn.String()] = fn
		}
	}
	for _, p := range prog.AllPackages() {
		path := p.Pkg.Path()
		name := p.Pkg.Name()
		// a package name used in a contract means the module's package of that name, else the
		// public standard-library one (not internal/strconv when strconv is meant): deterministic choice
		better := func(old string) bool {
			if isModPath(path) != isModPath(old) {
				return isModPath(path)
			}
			oi, ni := strings.Contains(old, "internal/") || strings.Contains(old, "vendor/"), strings.Contains(path, "internal/") || strings.Contains(path, "vendor/")
			if oi != ni {
				return !ni
			}
			if len(path) != len(old) {
				return len(path) < len(old)
			}
			return path < old
		}
		if old, ok := e.pkgNames[name]; !ok || better(old) {
			e.pkgNames[name] = path
		}
		if !isModPath(path) {
			continue
		}
		for _, m := range p.Members {
			if t, ok := m.(*ssa.Type); ok {
				e.allNamed = append(e.allNamed, t.Type())
			}
		}
	}
	sort.Slice(e.allNamed, func(i, j int) bool { return typeKey(e.allNamed[i]) < typeKey(e.allNamed[j]) })
	e.computeModSets()
	e.computeNonFresh()
	if err := e.loadContracts(); err != nil {
		return nil, err
	}
	specFuncsForSplit = e.specFuncs
	return e, nil
}

func (e *Engine) pkgByName(name string) string { return e.pkgNames[name] }

func (e *Engine) typeByString(s string) types.Type {
	if strings.HasPrefix(s, "[]") {
		if et := e.typeByString(s[2:]); et != nil {
			return types.NewSlice(et)
		}
		return nil
	}
	ptr := false
	if strings.HasPrefix(s, "*") {
		ptr = true
		s = s[1:]
	}
	var t types.Type
	for _, b := range types.Typ {
		if b.Name() == s {
			t = b
		}
	}
	if s == "rune" {
		t = types.Typ[types.Int32]
	}
	if s == "byte" {
		t = types.Typ[types.Uint8]
	}
	if t == nil {
		i := strings.LastIndex(s, ".")
		if i > 0 {
			if p := e.prog.ImportedPackage(s[:i]); p != nil {
				if o := p.Pkg.Scope().Lookup(s[i+1:]); o != nil {
					t = o.Type()
				}
			}
		}
	}
	if t == nil {
		return nil
	}
	if ptr {
		return types.NewPointer(t)
	}
	return t
}

type FuncResult struct {
	VC          *VC
	Func        string
	Obs         []*Obligation
	Notes       []string
	Unsupported string
	BindingErr  string
	Script      *Script
}

// generate the verification conditions of one function
func (e *Engine) verifyFunc(name string, forceSafety bool) (res *FuncResult) {
	res = &FuncResult{Func: name}
	fn := e.funcByName[name]
	if fn == nil || fn.Blocks == nil {
		res.BindingErr = "function not found in the current source: " + name
		return
	}
	sc := newScript()
	te := newTypeEnv(sc)
	he := newHeapEnv(sc, te)
	vc := &VC{eng: e, sc: sc, te: te, he: he, top: fn, counters: map[string]int{}, grefs: map[string]int{}}
	if e.transparent == nil {
		e.transparent = map[string]bool{}
	}
	currentTopPkg = ""
	if fn.Pkg != nil {
		currentTopPkg = fn.Pkg.Pkg.Path()
	} else if fn.Parent() != nil && fn.Parent().Pkg != nil {
		currentTopPkg = fn.Parent().Pkg.Pkg.Path()
	}
	vc.contract = e.contracts[name]
	vc.safety = forceSafety || (vc.contract != nil && vc.contract.Safe)
	res.Script = sc
	res.VC = vc
	defer func() {
		res.Obs = sc.obs
		res.Notes = vc.notes
		if r := recover(); r != nil {
			if u, ok := r.(unsupportedErr); ok {
				res.Unsupported = u.msg
				return
			}
			panic(r)
		}
	}()
	st := he.entryState()
	var params []Val
	for _, p := range fn.Params {
		v := vc.paramVal(p.Name(), p.Type())
		params = append(params, v)
	}
	f := vc.newFrame(fn, params, st, "true", true, "")
	vc.topFrame = f
	vc.stack = []*ssa.Function{fn}
	f.curB = fn.Blocks[0]
	f.reach[f.curB] = "true"
	f.cur = st
	sc.assume(app(">=", f.frontier(), "0"))
	for i, p := range fn.Params {
		if params[i].addr == nil {
			sc.assume(f.tinv(p.Type(), params[i].t))
		}
	}
	for i, fv := range fn.FreeVars {
		v := vc.paramVal(fmt.Sprintf("free%d:%s", i, fv.Name()), fv.Type())
		f.vals[fv] = v
	}
	for _, t := range vc.contract.trackedCalls() {
		vc.he.set(st, calledLoc(t), "Bool", "false") // ghost "was called" flags start false
	}
	vc.entry = st.clone()
	// terms describing the entry state, for counterexample replay
	vc.plan = vc.replayPlan()
	vc.entry = st.clone()
	if ct := vc.contract; ct != nil {
		env := f.specEnv(st, nil, nil)
		env.old = st
		var reqs []string
		for _, r := range ct.Requires {
			g := env.evalBool(r.Expr)
			reqs = append(reqs, g)
			sc.assume(g)
		}
		if len(reqs) > 0 {
			ob := &Obligation{Name: name + "/vacuity:requires#0", Kind: "vacuity", Func: name, Goal: "true", Cover: true, Claimed: true, Desc: "preconditions are satisfiable"}
			sc.oblige(ob)
		}
		if ct.Decr != nil {
			for _, ex := range ct.Decr.Exprs {
				f.entryMeasure = append(f.entryMeasure, sc.define("measure:entry", "Int", boolToInt(env.rv(env.eval(ex)))))
			}
		}
		// snapshot again: evaluating the preconditions may have materialised entry locations lazily
		vc.entry = st.clone()
	}
	if vc.contract != nil {
		vc.usesOnlyObligations(fn, vc.contract)
		vc.betweenObligations(fn, vc.contract)
		vc.pairedObligations(fn, vc.contract)
		vc.deferredOnlyObligations(fn, vc.contract)
		if vc.contract.NoBody {
			return
		}
	}
	f.run("true")
	sc.curBlk = nil
	vc.siteClauseCoverage(fn)
	if vc.contract != nil && len(f.rets) > 0 && len(vc.contract.Ensures) > 0 {
		// (only meaningful when there are postconditions that an unreachable return would make vacuous)
		var conds []string
		for _, r := range f.rets {
			conds = append(conds, r.cond)
		}
		ob := &Obligation{Name: name + "/vacuity:return#0", Kind: "vacuity", Func: name, Goal: or(conds...), Alts: conds, Cover: true, Claimed: true, Desc: "a return is reachable under the preconditions"}
		sc.oblige(ob)
	}
	return
}

func (vc *VC) paramVal(name string, t types.Type) Val {
	if pt, ok := t.Underlying().(*types.Pointer); ok && !isStruct(pt.Elem()) {
		// pointer to a non-struct: a cell
		r := vc.sc.freshConst("param:"+name, "Int")
		l, li := locCell(pt.Elem())
		return Val{typ: t, addr: &Addr{kind: "C", loc: l, li: li, ref: r, typ: pt.Elem()}}
	}
	return vc.freshVal("param:"+name, t)
}
