package main

// Verification-condition generation by symbolic execution of go/ssa with
// state merging at joins and loop cutting at natural-loop headers.

import (
	"fmt"
	"go/constant"
	"go/token"
	"go/types"
	"sort"
	"strings"

	"golang.org/x/tools/go/ssa"
)

type Addr struct {
	kind   string // F E C G A(array element inside parent)
	loc    string
	li     LocInfo
	ref    string // object / backing array / cell reference
	idx    string // element index (E, A)
	parent *Addr
	typ    types.Type // pointee type
}

type Val struct {
	t    string
	typ  types.Type
	addr *Addr
	tup  []Val
	fn   *ssa.Function
	bind []Val
	rng  *rangeState
}

type rangeState struct {
	x   Val
	typ types.Type
}

type unsupportedErr struct{ msg string }

func (u unsupportedErr) Error() string { return u.msg }

func unsupported(format string, a ...any) {
	panic(unsupportedErr{fmt.Sprintf(format, a...)})
}

type VC struct {
	qarr     map[string]string // slice term -> declared constant naming its backing array (quantifier triggers)
	siteApplied map[int]int   // callsite clause ordinal -> number of sites it applied at
	siteSeen    map[int]bool  // callsite clause ordinal -> its callee is called somewhere in the function
	eng      *Engine
	sc       *Script
	te       *TypeEnv
	he       *HeapEnv
	top      *ssa.Function
	contract *Contract
	counters map[string]int
	safety   bool // emit safety obligations as claimed
	entry    *State
	notes    []string
	allocs   []string
	depth    int
	pure     int // >0: evaluating a pure call inside a spec: no obligations
	stack    []*ssa.Function
	topFrame *Frame
	grefs    map[string]int
	footprints map[string]*footprint
	plan     *replayPlan
	firstIter []string // replay hints: loop-head state equals the state on loop entry
	outer    map[ssa.Value]Val // iteration mode: values defined outside the loop
}

type retInfo struct {
	cond string
	vals []Val
	st   *State
}

type loopInfo struct {
	header   *ssa.BasicBlock
	body     map[*ssa.BasicBlock]bool
	ordinal  int
	measure0 []string
	backs    []*ssa.BasicBlock
}

type Frame struct {
	vc      *VC
	fn      *ssa.Function
	vals    map[ssa.Value]Val
	reach   map[*ssa.BasicBlock]string
	out     map[*ssa.BasicBlock]*State
	edge    map[[2]int]string
	top     bool
	rets    []retInfo
	loops   map[*ssa.BasicBlock]*loopInfo
	prefix  string // obligation name prefix for inlined frames
	entrySt *State
	params  []Val
	defers  []*ssa.Defer
	deferC  map[*ssa.Defer]string
	cur     *State
	curB    *ssa.BasicBlock
	oldVals map[string]Val // header-phi values by variable name, for invariants
	entryMeasure []string
	done    map[string][]*ssa.BasicBlock
	iter    *iterMode
	loopDefers []*ssa.Defer
	reads   []tokenRead
	forceClaim bool // the next nil obligation is claimed (safederef)
	callFresh  map[string]bool // locations the callee being abstracted writes only in objects it allocates
	callSelf   *ssa.Function   // the callee whose contract is being applied (what `selfcall` in its clauses denotes)
}

func (vc *VC) note(format string, a ...any) {
	vc.notes = append(vc.notes, fmt.Sprintf(format, a...))
}

func (vc *VC) pos(p token.Pos) string {
	if !p.IsValid() {
		return ""
	}
	po := vc.eng.fset.Position(p)
	return fmt.Sprintf("%s:%d", strings.TrimPrefix(po.Filename, vc.eng.repo+"/"), po.Line)
}

// ---- obligations ----

func (f *Frame) oblige(kind, goal, desc string, p token.Pos, tags []string, claimed bool) *Obligation {
	vc := f.vc
	if vc.pure > 0 {
		return nil
	}
	reach := f.reach[f.curB]
	fname := vc.top.String()
	key := fname + "/" + f.prefix + kind
	n := vc.counters[key]
	vc.counters[key] = n + 1
	if i := strings.Index(kind, ":"); i >= 0 {
		kind = kind[:i]
	}
	ob := &Obligation{
		Name:    fmt.Sprintf("%s#%d", key, n),
		Kind:    kind,
		Func:    fname,
		Goal:    implies(reach, goal),
		Desc:    desc,
		Pos:     vc.pos(p),
		Claimed: claimed,
		Tags:    tags,
	}
	vc.sc.oblige(ob)
	return ob
}

// safety obligation (nil, idx, slice, assert, mapnil, div, panic)
func (f *Frame) safe(kind, goal, desc string, p token.Pos) {
	if goal == "true" || f.vc.pure > 0 {
		return
	}
	// an identical goal already obliged at a dominating point has been assumed since: skip
	if f.done == nil {
		f.done = map[string][]*ssa.BasicBlock{}
	}
	for _, b := range f.done[goal] {
		if b == f.curB || b.Dominates(f.curB) {
			return
		}
	}
	f.done[goal] = append(f.done[goal], f.curB)
	claimed := f.vc.safety
	if claimed && f.vc.contract != nil && f.vc.contract.SafeKinds != nil {
		claimed = f.vc.contract.SafeKinds[kind] && f.top
	}
	var tags []string
	if f.forceClaim && kind == "nil" {
		claimed = true
		tags = f.vc.contract.SafeDerefTags
		f.oblige("nil:deref", goal, desc+" (copied into a package-level variable)", p, tags, true)
		return
	}
	f.oblige(kind, goal, desc, p, nil, claimed)
}

func (f *Frame) frontier() string { return f.vc.he.get(f.cur, "ALLOC", "Int") }

func (f *Frame) tinv(t types.Type, v string) string {
	return f.vc.te.typeInv(t, v, 0, f.frontier())
}

// a reference that is new at this point: larger than everything allocated so far
func (f *Frame) freshRef(name string) string {
	vc := f.vc
	r := vc.sc.define("new:"+name, "Int", app("+", f.frontier(), "1"))
	vc.he.set(f.cur, "ALLOC", "Int", r)
	return r
}

func (f *Frame) assume(c string) {
	f.vc.sc.assumeAt(implies(f.reach[f.curB], c))
}

// ---- loops ----

func findLoops(fn *ssa.Function) map[*ssa.BasicBlock]*loopInfo {
	loops := map[*ssa.BasicBlock]*loopInfo{}
	for _, b := range fn.Blocks {
		for _, s := range b.Succs {
			if s.Dominates(b) {
				li := loops[s]
				if li == nil {
					li = &loopInfo{header: s, body: map[*ssa.BasicBlock]bool{s: true}}
					loops[s] = li
				}
				li.backs = append(li.backs, b)
				// natural loop body
				stack := []*ssa.BasicBlock{b}
				for len(stack) > 0 {
					x := stack[len(stack)-1]
					stack = stack[:len(stack)-1]
					if li.body[x] {
						continue
					}
					li.body[x] = true
					stack = append(stack, x.Preds...)
				}
			}
		}
	}
	var hs []*ssa.BasicBlock
	for h := range loops {
		hs = append(hs, h)
	}
	sort.Slice(hs, func(i, j int) bool { return hs[i].Index < hs[j].Index })
	for i, h := range hs {
		loops[h].ordinal = i
	}
	return loops
}

func rpo(fn *ssa.Function) []*ssa.BasicBlock {
	seen := map[*ssa.BasicBlock]bool{}
	var post []*ssa.BasicBlock
	var dfs func(b *ssa.BasicBlock)
	dfs = func(b *ssa.BasicBlock) {
		seen[b] = true
		for _, s := range b.Succs {
			if !seen[s] {
				dfs(s)
			}
		}
		post = append(post, b)
	}
	if len(fn.Blocks) > 0 {
		dfs(fn.Blocks[0])
	}
	for i, j := 0, len(post)-1; i < j; i, j = i+1, j-1 {
		post[i], post[j] = post[j], post[i]
	}
	return post
}

// locations modified inside a loop
func (vc *VC) loopMod(li *loopInfo) ModSet {
	var m ModSet
	for b := range li.body {
		for _, ins := range b.Instrs {
			switch x := ins.(type) {
			case *ssa.Store:
				addStoreLocs(&m, x.Addr)
			case *ssa.MapUpdate:
				l, i := locMapDom(x.Map.Type())
				m.add(l, i)
				l, i = locMapVal(x.Map.Type())
				m.add(l, i)
				if g := globalOf(x.Map); g != "" {
					m.add(mapWritesLoc(g), LocInfo{Kind: "G", Val: types.Typ[types.Int]})
				}
			case ssa.CallInstruction:
				m.union(vc.callMod(x.Common()))
			}
		}
	}
	return m
}

func (vc *VC) callMod(c *ssa.CallCommon) ModSet {
	var m ModSet
	if c.IsInvoke() {
		for _, f := range vc.eng.implementations(c) {
			m.union(vc.eng.modOf(f))
		}
		return m
	}
	switch v := c.Value.(type) {
	case *ssa.Builtin:
		switch v.Name() {
		case "append", "copy":
			if st, ok := c.Args[0].Type().Underlying().(*types.Slice); ok {
				if isStruct(st.Elem()) {
					addStructLeaves(&m, st.Elem())
				} else {
					l, li := locElem(st.Elem())
					m.add(l, li)
				}
			}
		case "delete", "clear":
			if _, ok := c.Args[0].Type().Underlying().(*types.Map); ok {
				l, li := locMapDom(c.Args[0].Type())
				m.add(l, li)
				l, li = locMapVal(c.Args[0].Type())
				m.add(l, li)
			}
		}
	case *ssa.Function:
		if vc.eng.inModule(v) {
			m.union(vc.eng.modOf(v))
			for _, a := range c.Args {
				if mc, ok := a.(*ssa.MakeClosure); ok {
					m.union(vc.eng.modOf(mc.Fn.(*ssa.Function)))
				}
			}
		} else {
			m.union(externalMod(v, c))
			for _, a := range c.Args {
				if mc, ok := a.(*ssa.MakeClosure); ok {
					m.union(vc.eng.modOf(mc.Fn.(*ssa.Function)))
				}
			}
		}
	case *ssa.MakeClosure:
		m.union(vc.eng.modOf(v.Fn.(*ssa.Function)))
	default:
		m.Top = true
	}
	return m
}

// ---- running a function body ----

func (vc *VC) newFrame(fn *ssa.Function, params []Val, st *State, reach string, top bool, prefix string) *Frame {
	f := &Frame{vc: vc, fn: fn, vals: map[ssa.Value]Val{}, reach: map[*ssa.BasicBlock]string{}, out: map[*ssa.BasicBlock]*State{},
		edge: map[[2]int]string{}, top: top, prefix: prefix, entrySt: st, params: params, deferC: map[*ssa.Defer]string{}}
	for i, p := range fn.Params {
		f.vals[p] = params[i]
	}
	f.loops = findLoops(fn)
	return f
}

// iteration mode: execute one iteration of a loop (header .. back edge) as if it were a function
type iterMode struct {
	header *ssa.BasicBlock
	body   map[*ssa.BasicBlock]bool
	phiIn  map[*ssa.Phi]Val
	next   func(x *ssa.Next) (Val, bool)
	backs  []iterBack
	exits  []iterExit
}

type iterBack struct {
	cond string
	st   *State
	phi  map[*ssa.Phi]Val
}

type iterExit struct {
	cond   string
	target *ssa.BasicBlock
	st     *State
}

func (f *Frame) run(reach0 string) {
	vc := f.vc
	fn := f.fn
	order := rpo(fn)
	start := fn.Blocks[0]
	if f.iter != nil {
		start = f.iter.header
	}
	for _, b := range order {
		if f.iter != nil && !f.iter.body[b] {
			continue
		}
		f.curB = b
		if fn == vc.top {
			vc.sc.curBlk = b // assumptions and obligations from here on arise at this block of the function under verification
		}
		isHeader := f.loops[b] != nil && !(f.iter != nil && b == start)
		var ins []condState
		var inPreds []*ssa.BasicBlock
		if b == start {
			ins = append(ins, condState{reach0, f.entrySt})
			inPreds = append(inPreds, nil)
		}
		for _, p := range b.Preds {
			if f.iter != nil && b == start {
				break // the iteration starts here; predecessors are outside or back edges
			}
			if b.Dominates(p) && isHeader {
				continue // back edge
			}
			c, ok := f.edge[[2]int{p.Index, b.Index}]
			if !ok {
				continue // unreachable predecessor (e.g. after panic)
			}
			ins = append(ins, condState{c, f.out[p]})
			inPreds = append(inPreds, p)
		}
		if len(ins) == 0 {
			continue
		}
		var conds []string
		for _, in := range ins {
			conds = append(conds, in.cond)
		}
		f.reach[b] = vc.sc.define("reach:"+f.prefix+fmt.Sprint(b.Index), "Bool", or(conds...))
		st := vc.he.merge(ins)
		f.cur = st

		// phi nodes
		phis := []*ssa.Phi{}
		for _, instr := range b.Instrs {
			if p, ok := instr.(*ssa.Phi); ok {
				phis = append(phis, p)
			} else {
				break
			}
		}
		phiFromEdges := func(p *ssa.Phi, preds []*ssa.BasicBlock, conds []string) Val {
			var vs []Val
			for _, pr := range preds {
				for i, bp := range b.Preds {
					if bp == pr {
						vs = append(vs, f.val(p.Edges[i]))
						break
					}
				}
			}
			return f.mergeVals(vs, conds, p.Type(), p.Comment)
		}
		if isHeader {
			li := f.loops[b]
			entryPhi := map[*ssa.Phi]Val{}
			for _, p := range phis {
				entryPhi[p] = phiFromEdges(p, inPreds, conds)
			}
			// invariants at entry
			f.checkInvariants(li, "inv-init", func(p *ssa.Phi) Val { return entryPhi[p] }, phis, st)
			// havoc
			mod := vc.loopMod(li)
			if f.top && vc.contract != nil {
				for _, l := range vc.calledLocsIn(li) {
					mod.add(l, LocInfo{Kind: "G", Val: types.Typ[types.Bool]}) // ghost "was called" flags
				}
			}
			if f.top {
				// ghost "produced so far" set of the map range this loop iterates
				for _, ins := range li.header.Instrs {
					if nx, ok := ins.(*ssa.Next); ok && !nx.IsString {
						if it := f.val(nx.Iter); it.rng != nil {
							if mt, ok := it.rng.typ.Underlying().(*types.Map); ok {
								mod.add(seenLoc(f.fn, nx.Iter), LocInfo{Kind: "SEEN", Key: mt.Key()})
							}
						}
					}
				}
			}
			pre := st.clone()
			f.havocKeeping(st, mod, pkgOfFn(f.fn))
			if !mod.Top {
				// locations the loop writes only in objects it allocates itself keep their values at
				// every reference that existed on entry (freshloop.go)
				a0 := vc.he.get(pre, "ALLOC", "Int")
				fresh := vc.loopFreshOnly(li)
				for _, l := range sortedKeys(mod.Locs) {
					if !fresh[l] {
						continue
					}
					switch mod.Locs[l].Kind {
					case "F", "C", "E":
						srt := mod.Locs[l].sort(vc.te)
						h1 := vc.he.get(st, l, srt)
						h0 := vc.he.get(pre, l, srt)
						// r existed on entry: a proper object reference below the frontier, or an element
						// slot of an array that existed (interior references are negative numbers)
						vc.sc.decl("elem", "(declare-fun elem (Int Int) Int)")
						vc.elemRef("0", "0")
						existed := fmt.Sprintf("(or (and (<= 0 r) (<= r %s)) (and (< r 0) (<= (own r) %s)))", a0, a0)
						vc.sc.assume(implies(f.reach[f.curB], fmt.Sprintf("(forall ((r Int)) (! (=> %s (= (select %s r) (select %s r))) :pattern ((select %s r))))", existed, h1, h0, h1)))
					}
				}
			}
			if f.top && !mod.Top {
				// replay hint: "the counterexample happens in the first iteration"
				for _, l := range sortedKeys(mod.Locs) {
					vc.firstIter = append(vc.firstIter, eq(st.loc[l], vc.he.get(pre, l, mod.Locs[l].sort(vc.te))))
				}
			}
			for _, p := range phis {
				if entryPhi[p].addr != nil || entryPhi[p].fn != nil {
					unsupported("loop-carried address/function value %s in %s", p.Name(), fn)
				}
				v := vc.freshVal(p.Name()+":"+p.Comment, p.Type())
				f.vals[p] = v
				f.assume(f.tinv(p.Type(), v.t))
				if f.top && entryPhi[p].tup == nil {
					vc.firstIter = append(vc.firstIter, eq(v.t, entryPhi[p].t))
				}
				// induction variable: every back edge adds a positive constant, so it never falls
				// below its entry value (automatic invariant; integers are mathematical, A1)
				if vc.te.sortOf(p.Type()) == "Int" && entryPhi[p].t != "" && monotoneUp(p, b) {
					f.assume(app(">=", v.t, entryPhi[p].t))
				}
			}
			f.assumeInvariants(li, phis, st)
			li.measure0 = f.evalMeasure(li, phis, st)
		} else if f.iter != nil && b == start {
			for _, p := range phis {
				f.vals[p] = f.iter.phiIn[p]
			}
		} else {
			for _, p := range phis {
				f.vals[p] = phiFromEdges(p, inPreds, conds)
			}
		}
		// instructions
		terminated := false
		for _, instr := range b.Instrs[len(phis):] {
			if f.instr(instr) {
				terminated = true
				break
			}
		}
		f.out[b] = f.cur
		if terminated {
			continue
		}
	}
}

func (f *Frame) mergeVals(vs []Val, conds []string, typ types.Type, name string) Val {
	if len(vs) == 1 {
		return vs[0]
	}
	allSame := true
	for _, v := range vs[1:] {
		if v.t != vs[0].t || v.addr != vs[0].addr || v.fn != vs[0].fn {
			allSame = false
		}
	}
	if allSame && vs[0].tup == nil {
		return vs[0]
	}
	for _, v := range vs {
		if v.addr != nil {
			unsupported("phi over interior addresses (%s) in %s", name, f.fn)
		}
		if v.rng != nil {
			unsupported("phi over range values (%s) in %s", name, f.fn)
		}
		if v.fn != nil {
			// different function values merge into an unknown function value (calls havoc everything)
			return Val{t: f.vc.sc.freshConst("funcval:"+name, "Int"), typ: typ}
		}
	}
	if vs[0].tup != nil {
		out := Val{typ: typ}
		for i := range vs[0].tup {
			var col []Val
			for _, v := range vs {
				col = append(col, v.tup[i])
			}
			out.tup = append(out.tup, f.mergeVals(col, conds, vs[0].tup[i].typ, name))
		}
		return out
	}
	body := vs[len(vs)-1].t
	for i := len(vs) - 2; i >= 0; i-- {
		body = ite(conds[i], vs[i].t, body)
	}
	return Val{t: f.vc.sc.define("phi:"+name, f.vc.te.sortOf(typ), body), typ: typ}
}

func (vc *VC) freshVal(name string, t types.Type) Val {
	if tt, ok := t.(*types.Tuple); ok {
		v := Val{typ: t}
		for i := 0; i < tt.Len(); i++ {
			v.tup = append(v.tup, vc.freshVal(fmt.Sprintf("%s.%d", name, i), tt.At(i).Type()))
		}
		return v
	}
	return Val{t: vc.sc.freshConst(name, vc.te.sortOf(t)), typ: t}
}

// ---- values ----

func (f *Frame) val(v ssa.Value) Val {
	if x, ok := f.vals[v]; ok {
		return x
	}
	vc := f.vc
	switch c := v.(type) {
	case *ssa.Const:
		return vc.constVal(c)
	case *ssa.Global:
		elem := c.Type().(*types.Pointer).Elem()
		if isStruct(elem) {
			// globals of struct type live at fixed negative references
			key := c.Pkg.Pkg.Path() + "." + c.Name()
			id, ok := vc.grefs[key]
			if !ok {
				id = len(vc.grefs) + 1
				vc.grefs[key] = id
				// a package-level struct is an object of its own (it lies in no array and existed
				// before every allocation): own(g) = g, and the element reference with g's
				// coordinates belongs to an array, so it is not g
				g := num(int64(-1000 - id))
				vc.sc.decl("own", "(declare-fun own (Int) Int)")
				vc.sc.assume(eq(app("own", g), g))
				vc.elemRef(app("elem_arr", g), app("elem_idx", g))
				vc.sc.assume(not(eq(g, app("elem", app("elem_arr", g), app("elem_idx", g)))))
			}
			return Val{t: num(int64(-1000 - id)), typ: c.Type()}
		}
		l, li := locGlobal(c)
		return Val{typ: c.Type(), addr: &Addr{kind: "G", loc: l, li: li, typ: elem}}
	case *ssa.Function:
		return Val{typ: c.Type(), fn: c, t: fmt.Sprint(vc.te.tagOf(types.Typ[types.Int])*0 + funcID(vc, c))}
	case *ssa.Builtin:
		return Val{typ: c.Type()}
	case *ssa.FreeVar:
		unsupported("free variable %s outside closure binding in %s", c.Name(), f.fn)
	}
	if f.iter != nil {
		// defined before the loop: an arbitrary value, shared by all executions of the iteration
		if x, ok := vc.outer[v]; ok {
			return x
		}
		if pt, ok := v.Type().Underlying().(*types.Pointer); ok && !isStruct(pt.Elem()) {
			if _, isAlloc := v.(*ssa.Alloc); !isAlloc {
				unsupported("address computed outside the loop (%s) in %s", v.Name(), f.fn)
			}
		}
		var x Val
		if r, ok := v.(*ssa.Range); ok {
			x = Val{typ: r.Type(), rng: &rangeState{x: f.val(r.X), typ: r.X.Type()}}
		} else {
			x = vc.paramVal("outer:"+v.Name(), v.Type())
			if x.addr == nil {
				vc.sc.assume(vc.te.typeInv(v.Type(), x.t, 0, vc.he.get(vc.entry, "ALLOC", "Int")))
			}
		}
		vc.outer[v] = x
		return x
	}
	unsupported("value %T %s not yet computed in %s", v, v.Name(), f.fn)
	return Val{}
}

func funcID(vc *VC, fn *ssa.Function) int {
	return vc.te.tagOf(types.NewNamed(types.NewTypeName(token.NoPos, nil, "func:"+fn.String(), nil), types.Typ[types.Int], nil)) + 1000
}

func (vc *VC) constVal(c *ssa.Const) Val {
	t := c.Type()
	if c.Value == nil {
		return Val{t: vc.te.zero(t), typ: t}
	}
	switch c.Value.Kind() {
	case constant.Bool:
		if constant.BoolVal(c.Value) {
			return Val{t: "true", typ: t}
		}
		return Val{t: "false", typ: t}
	case constant.String:
		return Val{t: smtString(constant.StringVal(c.Value)), typ: t}
	case constant.Int:
		if vc.te.sortOf(t) == "Real" {
			f, _ := constant.Float64Val(c.Value)
			return Val{t: realLit(f), typ: t}
		}
		if i, ok := constant.Int64Val(c.Value); ok {
			return Val{t: num(i), typ: t}
		}
		u, _ := constant.Uint64Val(c.Value)
		return Val{t: fmt.Sprint(u), typ: t}
	case constant.Float:
		fl, _ := constant.Float64Val(c.Value)
		if vc.te.sortOf(t) == "Int" {
			return Val{t: num(int64(fl)), typ: t}
		}
		return Val{t: realLit(fl), typ: t}
	}
	return vc.freshVal("const", t)
}

func realLit(f float64) string {
	s := fmt.Sprintf("%.6f", f)
	if f < 0 {
		return "(- " + s[1:] + ")"
	}
	return s
}

// ---- memory access ----

func (f *Frame) readAddr(a *Addr) string {
	vc := f.vc
	srt := a.li.sort(vc.te)
	switch a.kind {
	case "F", "C":
		return app("select", vc.he.get(f.cur, a.loc, srt), a.ref)
	case "E":
		return app("select", app("select", vc.he.get(f.cur, a.loc, srt), a.ref), a.idx)
	case "G":
		return vc.he.get(f.cur, a.loc, srt)
	case "A":
		return app("select", f.readAddr(a.parent), a.idx)
	}
	panic("bad addr")
}

func (f *Frame) writeAddr(a *Addr, v string) {
	vc := f.vc
	srt := a.li.sort(vc.te)
	switch a.kind {
	case "F", "C":
		vc.he.set(f.cur, a.loc, srt, app("store", vc.he.get(f.cur, a.loc, srt), a.ref, v))
	case "E":
		h := vc.he.get(f.cur, a.loc, srt)
		vc.he.set(f.cur, a.loc, srt, app("store", h, a.ref, app("store", app("select", h, a.ref), a.idx, v)))
	case "G":
		vc.he.set(f.cur, a.loc, srt, v)
	case "A":
		f.writeAddr(a.parent, app("store", f.readAddr(a.parent), a.idx, v))
	default:
		panic("bad addr")
	}
}

// reference of nested struct field
func (vc *VC) subRef(owner types.Type, i int, r string) string {
	fnm := subFun(owner, i)
	inv := sym("subinv:" + typeKey(owner) + "." + owner.Underlying().(*types.Struct).Field(i).Name())
	vc.sc.decl(fnm, fmt.Sprintf("(declare-fun %s (Int) Int)", fnm))
	vc.sc.decl(inv, fmt.Sprintf("(declare-fun %s (Int) Int)", inv))
	vc.sc.decl("own", "(declare-fun own (Int) Int)") // the allocated object an interior reference lies in
	if hasBound(r) {
		vc.sc.declAxiom("sub:"+fnm, fmt.Sprintf("(forall ((r Int)) (! (and (= (%s (%s r)) r) (< (%s r) 0) (= (own (%s r)) (own r))) :pattern ((%s r))))", inv, fnm, fnm, fnm, fnm), fnm)
		return app(fnm, r)
	}
	t := app(fnm, r)
	key := "inst:" + t
	if !vc.sc.declSet[key] {
		vc.sc.declSet[key] = true
		vc.sc.assume(and(eq(app(inv, t), r), app("<", t, "0"), eq(app("own", t), app("own", r)), implies(app(">=", r, "0"), eq(app("own", r), r))))
	}
	return t
}

func (vc *VC) elemRef(arr, idx string) string {
	vc.sc.decl("elem", "(declare-fun elem (Int Int) Int)")
	vc.sc.decl("elem_arr", "(declare-fun elem_arr (Int) Int)")
	vc.sc.decl("elem_idx", "(declare-fun elem_idx (Int) Int)")
	vc.sc.decl("own", "(declare-fun own (Int) Int)")
	if hasBound(arr+idx) {
		vc.sc.declAxiom("elem", "(forall ((a Int) (i Int)) (! (and (= (elem_arr (elem a i)) a) (= (elem_idx (elem a i)) i) (< (elem a i) 0) (= (own (elem a i)) (own a)) (=> (>= a 0) (= (own a) a))) :pattern ((elem a i))))", "elem")
		return app("elem", arr, idx)
	}
	t := app("elem", arr, idx)
	key := "inst:" + t
	if !vc.sc.declSet[key] {
		vc.sc.declSet[key] = true
		vc.sc.assume(and(eq(app("elem_arr", t), arr), eq(app("elem_idx", t), idx), app("<", t, "0"), eq(app("own", t), app("own", arr)), implies(app(">=", arr, "0"), eq(app("own", arr), arr))))
	}
	return t
}

// load a whole value of type t living at struct reference r (t is a struct type)
func (f *Frame) gather(t types.Type, r string) string {
	vc := f.vc
	u := t.Underlying().(*types.Struct)
	vc.te.sortOf(t)
	var fs []string
	for i := 0; i < u.NumFields(); i++ {
		ft := u.Field(i).Type()
		if isStruct(ft) {
			fs = append(fs, f.gather(ft, vc.subRef(t, i, r)))
		} else {
			l, li := locField(t, i)
			fs = append(fs, f.readAddr(&Addr{kind: "F", loc: l, li: li, ref: r}))
		}
	}
	if len(fs) == 0 {
		fs = append(fs, "0")
	}
	return vc.sc.define("struct", vc.te.sortOf(t), "("+vc.te.structCtor(t)+" "+strings.Join(fs, " ")+")")
}

func (f *Frame) scatter(t types.Type, r string, v string) {
	vc := f.vc
	u := t.Underlying().(*types.Struct)
	vc.te.sortOf(t)
	for i := 0; i < u.NumFields(); i++ {
		ft := u.Field(i).Type()
		fv := app(vc.te.fieldSel(t, i), v)
		if isStruct(ft) {
			f.scatter(ft, vc.subRef(t, i, r), fv)
		} else {
			l, li := locField(t, i)
			f.writeAddr(&Addr{kind: "F", loc: l, li: li, ref: r}, fv)
		}
	}
}

// load through a pointer value
func (f *Frame) load(p Val, pos token.Pos) Val {
	elem := p.typ.Underlying().(*types.Pointer).Elem()
	if p.addr != nil {
		v := Val{t: f.vc.sc.define("ld", f.vc.te.sortOf(elem), f.readAddr(p.addr)), typ: elem}
		f.assume(f.tinv(elem, v.t))
		return v
	}
	f.safe("nil", app("not", eq(p.t, "0")), "load through "+p.t, pos)
	if isStruct(elem) {
		v := Val{t: f.gather(elem, p.t), typ: elem}
		f.assume(f.tinv(elem, v.t))
		return v
	}
	l, li := locCell(elem)
	v := Val{t: f.vc.sc.define("ld", f.vc.te.sortOf(elem), f.readAddr(&Addr{kind: "C", loc: l, li: li, ref: p.t})), typ: elem}
	f.assume(f.tinv(elem, v.t))
	return v
}

func (f *Frame) store(p Val, v Val, pos token.Pos) {
	elem := p.typ.Underlying().(*types.Pointer).Elem()
	vt := f.materialize(v)
	if p.addr != nil {
		f.writeAddr(p.addr, vt)
		return
	}
	f.safe("nil", app("not", eq(p.t, "0")), "store through "+p.t, pos)
	if isStruct(elem) {
		f.scatter(elem, p.t, vt)
		return
	}
	l, li := locCell(elem)
	f.writeAddr(&Addr{kind: "C", loc: l, li: li, ref: p.t}, vt)
}

// turn a value into an SMT term (addresses must be cells)
func (f *Frame) materialize(v Val) string {
	if v.addr != nil {
		if v.addr.kind == "C" {
			return v.addr.ref
		}
		unsupported("interior pointer (%s %s) escapes in %s", v.addr.kind, v.addr.loc, f.fn)
	}
	if v.fn != nil && v.t == "" {
		return "0"
	}
	if v.tup != nil {
		unsupported("tuple used as value in %s", f.fn)
	}
	return v.t
}

func (f *Frame) alloc(t types.Type, name string) Val {
	vc := f.vc
	r := f.freshRef(name)
	pt := types.NewPointer(t)
	if isStruct(t) {
		f.scatter(t, r, vc.te.zero(t))
		if typeKey(t) == "strings.Builder" {
			f.writeAddr(&Addr{kind: "C", loc: builderNLLoc, li: LocInfo{Kind: "C", Val: types.Typ[types.Int]}, ref: r}, "0")
		}
		return Val{t: r, typ: pt}
	}
	if at, ok := t.Underlying().(*types.Array); ok && isStruct(at.Elem()) {
		// an array of structs is its own backing array: element i lives at elem(r, i)
		if at.Len() <= 8 {
			for i := int64(0); i < at.Len(); i++ {
				f.scatter(at.Elem(), vc.elemRef(r, num(i)), vc.te.zero(at.Elem()))
			}
		}
		return Val{t: r, typ: pt}
	}
	l, li := locCell(t)
	a := &Addr{kind: "C", loc: l, li: li, ref: r, typ: t}
	f.writeAddr(a, vc.te.zero(t))
	return Val{typ: pt, addr: a}
}

func sliceParts(s string) (arr, off, ln, cp string) {
	return app("s_arr", s), app("s_off", s), app("s_len", s), app("s_cap", s)
}

// ---- instructions ----

// returns true if the block is terminated abnormally (panic / exit)
func (f *Frame) instr(instr ssa.Instruction) bool {
	vc := f.vc
	te := vc.te
	switch x := instr.(type) {
	case *ssa.DebugRef:
	case *ssa.Alloc:
		f.vals[x] = f.alloc(x.Type().(*types.Pointer).Elem(), x.Name()+":"+x.Comment)
	case *ssa.FieldAddr:
		base := f.val(x.X)
		owner := x.X.Type().Underlying().(*types.Pointer).Elem()
		if base.addr != nil {
			unsupported("field of non-struct address in %s", f.fn)
		}
		f.safe("nil", app("not", eq(base.t, "0")), "field access "+x.X.Name()+"."+owner.Underlying().(*types.Struct).Field(x.Field).Name(), x.Pos())
		ft := owner.Underlying().(*types.Struct).Field(x.Field).Type()
		if isStruct(ft) {
			f.vals[x] = Val{t: vc.sc.define("sub", "Int", vc.subRef(owner, x.Field, base.t)), typ: x.Type()}
		} else {
			l, li := locField(owner, x.Field)
			f.vals[x] = Val{typ: x.Type(), addr: &Addr{kind: "F", loc: l, li: li, ref: base.t, typ: ft}}
		}
	case *ssa.Field:
		base := f.val(x.X)
		f.vals[x] = Val{t: app(te.fieldSel(x.X.Type(), x.Field), base.t), typ: x.Type()}
	case *ssa.IndexAddr:
		base := f.val(x.X)
		idx := f.val(x.Index).t
		switch xt := x.X.Type().Underlying().(type) {
		case *types.Slice:
			arr, off, ln, _ := sliceParts(base.t)
			f.safe("idx", and(app("<=", "0", idx), app("<", idx, ln)), "index "+x.X.Name()+"["+x.Index.Name()+"]", x.Pos())
			pos := app("+", off, idx)
			if isStruct(xt.Elem()) {
				f.vals[x] = Val{t: vc.sc.define("elem", "Int", vc.elemRef(arr, pos)), typ: x.Type()}
			} else {
				l, li := locElem(xt.Elem())
				f.vals[x] = Val{typ: x.Type(), addr: &Addr{kind: "E", loc: l, li: li, ref: arr, idx: pos, typ: xt.Elem()}}
			}
		case *types.Pointer:
			at := xt.Elem().Underlying().(*types.Array)
			f.safe("idx", and(app("<=", "0", idx), app("<", idx, num(at.Len()))), "array index "+x.X.Name()+"["+x.Index.Name()+"]", x.Pos())
			if isStruct(at.Elem()) && base.addr == nil {
				f.vals[x] = Val{t: vc.sc.define("elem", "Int", vc.elemRef(base.t, idx)), typ: x.Type()}
				break
			}
			if base.addr == nil {
				unsupported("array pointer that is not an address in %s", f.fn)
			}
			if isStruct(at.Elem()) {
				unsupported("array of structs in %s", f.fn)
			}
			f.vals[x] = Val{typ: x.Type(), addr: &Addr{kind: "A", parent: base.addr, idx: idx, typ: at.Elem(), li: LocInfo{Kind: "G", Val: at.Elem()}}}
		default:
			unsupported("IndexAddr on %s", x.X.Type())
		}
	case *ssa.Index:
		base := f.val(x.X)
		idx := f.val(x.Index).t
		switch xt := x.X.Type().Underlying().(type) {
		case *types.Basic: // string
			f.safe("idx", and(app("<=", "0", idx), app("<", idx, app("str.len", base.t))), "string index "+x.X.Name()+"["+x.Index.Name()+"]", x.Pos())
			f.vals[x] = Val{t: vc.sc.define("chr", "Int", app("str.to_code", app("str.at", base.t, idx))), typ: x.Type()}
		case *types.Array:
			f.safe("idx", and(app("<=", "0", idx), app("<", idx, num(xt.Len()))), "array index", x.Pos())
			f.vals[x] = Val{t: app("select", base.t, idx), typ: x.Type()}
		default:
			unsupported("Index on %s", x.X.Type())
		}
	case *ssa.UnOp:
		f.unop(x)
	case *ssa.BinOp:
		f.vals[x] = f.binop(x.Op, f.val(x.X), f.val(x.Y), x.Type(), x.Pos())
	case *ssa.Store:
		f.siteGlobalStore(x)
		f.store(f.val(x.Addr), f.val(x.Val), x.Pos())
	case *ssa.Phi:
		unsupported("phi in the middle of a block")
	case *ssa.Convert:
		f.vals[x] = f.convert(x)
	case *ssa.ChangeType:
		v := f.val(x.X)
		v.typ = x.Type()
		f.vals[x] = v
	case *ssa.ChangeInterface:
		v := f.val(x.X)
		v.typ = x.Type()
		f.vals[x] = v
	case *ssa.MakeInterface:
		v := f.val(x.X)
		tag := te.tagOf(x.X.Type())
		f.vals[x] = Val{t: vc.sc.define("iface", sortIface, app("mk_iface", fmt.Sprint(tag), te.box(x.X.Type(), f.materialize(v)))), typ: x.Type()}
	case *ssa.TypeAssert:
		f.typeAssert(x)
	case *ssa.Extract:
		t := f.val(x.Tuple)
		if t.tup == nil {
			unsupported("extract from non-tuple in %s", f.fn)
		}
		f.vals[x] = t.tup[x.Index]
	case *ssa.MakeSlice:
		ln := f.val(x.Len).t
		cp := f.val(x.Cap).t
		f.safe("slice", and(app("<=", "0", ln), app("<=", ln, cp)), "make slice", x.Pos())
		arr := f.freshRef("mkslice")
		et := x.Type().Underlying().(*types.Slice).Elem()
		if !isStruct(et) {
			l, li := locElem(et)
			srt := li.sort(te)
			vc.he.set(f.cur, l, srt, app("store", vc.he.get(f.cur, l, srt), arr, fmt.Sprintf("((as const (Array Int %s)) %s)", te.sortOf(et), te.zero(et))))
		}
		f.vals[x] = Val{t: vc.sc.define("slice", sortSlice, app("mk_slice", arr, "0", ln, cp)), typ: x.Type()}
	case *ssa.MakeMap:
		m := f.freshRef("mkmap")
		l, li := locMapDom(x.Type())
		srt := li.sort(te)
		kt := x.Type().Underlying().(*types.Map).Key()
		vc.he.set(f.cur, l, srt, app("store", vc.he.get(f.cur, l, srt), m, fmt.Sprintf("((as const (Array %s Bool)) false)", te.sortOf(kt))))
		f.vals[x] = Val{t: m, typ: x.Type()}
	case *ssa.MakeClosure:
		fn := x.Fn.(*ssa.Function)
		var bs []Val
		for _, b := range x.Bindings {
			bs = append(bs, f.val(b))
		}
		f.vals[x] = Val{typ: x.Type(), fn: fn, bind: bs, t: fmt.Sprint(funcID(vc, fn))}
	case *ssa.Slice:
		f.sliceOp(x)
	case *ssa.Lookup:
		f.lookup(x)
	case *ssa.MapUpdate:
		m := f.val(x.Map)
		k := f.materialize(f.val(x.Key))
		v := f.materialize(f.val(x.Value))
		f.siteMapWrite(x)
		if g := globalOf(x.Map); g != "" {
			// ghost: number of writes to this package-level map (see mapwrites() in specifications)
			c := vc.he.get(f.cur, mapWritesLoc(g), "Int")
			vc.he.set(f.cur, mapWritesLoc(g), "Int", vc.sc.define("mapwrites", "Int", app("+", c, "1")))
		}
		f.safe("mapnil", app("not", eq(m.t, "0")), "assignment to entry in possibly nil map "+x.Map.Name(), x.Pos())
		l, li := locMapDom(x.Map.Type())
		srt := li.sort(te)
		h := vc.he.get(f.cur, l, srt)
		vc.he.set(f.cur, l, srt, app("store", h, m.t, app("store", app("select", h, m.t), k, "true")))
		l, li = locMapVal(x.Map.Type())
		srt = li.sort(te)
		h = vc.he.get(f.cur, l, srt)
		vc.he.set(f.cur, l, srt, app("store", h, m.t, app("store", app("select", h, m.t), k, v)))
	case *ssa.Range:
		f.vals[x] = Val{typ: x.Type(), rng: &rangeState{x: f.val(x.X), typ: x.X.Type()}}
		if mt, ok := x.X.Type().Underlying().(*types.Map); ok && f.top {
			sli := LocInfo{Kind: "SEEN", Key: mt.Key()}
			srt := sli.sort(te)
			vc.he.locSort[seenLoc(f.fn, x)] = srt
			vc.he.set(f.cur, seenLoc(f.fn, x), srt, "((as const "+srt+") false)") // nothing produced yet
		}
	case *ssa.Next:
		f.next(x)
	case *ssa.Call:
		return f.call(x, x.Common(), x)
	case *ssa.Defer:
		if f.loops != nil {
			for _, li := range f.loops {
				if li.body[x.Block()] {
					// registered an unknown number of times: its effects are havocked at RunDefers
					f.loopDefers = append(f.loopDefers, x)
					for _, a := range x.Call.Args {
						_ = f.val(a)
					}
					return false
				}
			}
		}
		f.defers = append(f.defers, x)
		f.deferC[x] = f.reach[f.curB]
		// evaluate arguments now
		for _, a := range x.Call.Args {
			_ = f.val(a)
		}
	case *ssa.RunDefers:
		for _, d := range f.loopDefers {
			vc.he.havoc(f.cur, vc.callMod(&d.Call))
		}
		for i := len(f.defers) - 1; i >= 0; i-- {
			d := f.defers[i]
			// executed only if the defer statement was reached: approximate by executing the call under
			// the condition; to stay sound we require the defer to be reached whenever RunDefers is.
			if f.deferC[d] != f.reach[f.fn.Blocks[0]] && f.deferC[d] != "true" {
				// conditional defer: havoc its effects
				st := f.cur
				vc.he.havoc(st, vc.callMod(&d.Call))
				continue
			}
			f.call(d, &d.Call, nil)
		}
	case *ssa.Go, *ssa.Send, *ssa.Select, *ssa.MakeChan:
		unsupported("concurrency instruction %T in %s", x, f.fn)
	case *ssa.If:
		c := f.val(x.Cond).t
		b := f.curB
		r := f.reach[b]
		f.edge[[2]int{b.Index, b.Succs[0].Index}] = vc.sc.define("edge", "Bool", and(r, c))
		if b.Succs[1] == b.Succs[0] {
			f.edge[[2]int{b.Index, b.Succs[0].Index}] = r
		} else {
			f.edge[[2]int{b.Index, b.Succs[1].Index}] = vc.sc.define("edge", "Bool", and(r, not(c)))
		}
		f.backEdges(b)
	case *ssa.Jump:
		b := f.curB
		f.edge[[2]int{b.Index, b.Succs[0].Index}] = f.reach[b]
		f.backEdges(b)
	case *ssa.Return:
		var vs []Val
		for _, r := range x.Results {
			vs = append(vs, f.val(r))
		}
		if f.top {
			f.checkPost(vs, x.Pos())
		}
		f.rets = append(f.rets, retInfo{f.reach[f.curB], vs, f.cur})
	case *ssa.Panic:
		f.safe("panic", "false", "explicit panic reachable", x.Pos())
		return true
	default:
		unsupported("instruction %T in %s", instr, f.fn)
	}
	return false
}

func (f *Frame) backEdges(b *ssa.BasicBlock) {
	if f.iter != nil {
		for _, s := range b.Succs {
			cond, ok := f.edge[[2]int{b.Index, s.Index}]
			if !ok {
				continue
			}
			if s == f.iter.header {
				phi := map[*ssa.Phi]Val{}
				for _, instr := range s.Instrs {
					p, isPhi := instr.(*ssa.Phi)
					if !isPhi {
						break
					}
					for i, bp := range s.Preds {
						if bp == b {
							phi[p] = f.val(p.Edges[i])
						}
					}
				}
				f.iter.backs = append(f.iter.backs, iterBack{cond, f.cur, phi})
				delete(f.edge, [2]int{b.Index, s.Index})
			} else if !f.iter.body[s] {
				f.iter.exits = append(f.iter.exits, iterExit{cond, s, f.cur})
				delete(f.edge, [2]int{b.Index, s.Index})
			}
		}
	}
	for _, s := range b.Succs {
		li := f.loops[s]
		if li == nil || !s.Dominates(b) {
			continue
		}
		// back edge b -> s
		cond := f.edge[[2]int{b.Index, s.Index}]
		var phis []*ssa.Phi
		for _, instr := range s.Instrs {
			if p, ok := instr.(*ssa.Phi); ok {
				phis = append(phis, p)
			} else {
				break
			}
		}
		edgeIdx := -1
		for i, bp := range s.Preds {
			if bp == b {
				edgeIdx = i
			}
		}
		phiVal := func(p *ssa.Phi) Val { return f.val(p.Edges[edgeIdx]) }
		saved := f.reach[b]
		f.reach[b] = cond
		f.checkInvariants(li, "inv-keep", phiVal, phis, f.cur)
		f.checkMeasure(li, phiVal, phis, f.cur)
		f.checkEosExit(li, s)
		f.reach[b] = saved
		delete(f.edge, [2]int{b.Index, s.Index})
	}
}

func (f *Frame) unop(x *ssa.UnOp) {
	vc := f.vc
	v := f.val(x.X)
	switch x.Op {
	case token.MUL:
		if x.CommaOk {
			unsupported("comma-ok load")
		}
		// `safederef <pkg.Global>`: the nil obligation of a load whose value is stored into that
		// package-level variable is claimed (the copy `Global = *p` must not be reached with p == nil)
		if f.top && vc.contract != nil && len(vc.contract.SafeDeref) > 0 {
			for _, r := range *x.Referrers() {
				if st, ok := r.(*ssa.Store); ok && st.Val == ssa.Value(x) {
					if g, ok := st.Addr.(*ssa.Global); ok && vc.contract.SafeDeref[g.Pkg.Pkg.Name()+"."+g.Name()] {
						f.forceClaim = true
					}
				}
			}
		}
		f.vals[x] = f.load(v, x.Pos())
		f.forceClaim = false
	case token.NOT:
		f.vals[x] = Val{t: not(v.t), typ: x.Type()}
	case token.SUB:
		f.vals[x] = Val{t: app("-", v.t), typ: x.Type()}
	case token.XOR:
		vc.sc.decl("bitnot", "(declare-fun bitnot (Int) Int)")
		f.vals[x] = Val{t: app("bitnot", v.t), typ: x.Type()}
	default:
		unsupported("unop %s in %s", x.Op, f.fn)
	}
}

func (f *Frame) binop(op token.Token, a, b Val, rt types.Type, pos token.Pos) Val {
	vc := f.vc
	srt := vc.te.sortOf(a.typ)
	at, bt := f.materialize(a), f.materialize(b)
	mk := func(t string) Val { return Val{t: t, typ: rt} }
	switch op {
	case token.EQL:
		return mk(eq(at, bt))
	case token.NEQ:
		return mk(not(eq(at, bt)))
	}
	switch srt {
	case "Int":
		switch op {
		case token.ADD:
			return mk(app("+", at, bt))
		case token.SUB:
			return mk(app("-", at, bt))
		case token.MUL:
			return mk(app("*", at, bt))
		case token.QUO:
			f.safe("div", not(eq(bt, "0")), "integer division", pos)
			vc.sc.decl("godiv", "(define-fun godiv ((a Int) (b Int)) Int (ite (>= a 0) (div a b) (- (div (- a) b))))")
			return mk(app("godiv", at, bt))
		case token.REM:
			f.safe("div", not(eq(bt, "0")), "integer remainder", pos)
			vc.sc.decl("gorem", "(define-fun gorem ((a Int) (b Int)) Int (ite (>= a 0) (mod a b) (- (mod (- a) b))))")
			return mk(app("gorem", at, bt))
		case token.LSS:
			return mk(app("<", at, bt))
		case token.LEQ:
			return mk(app("<=", at, bt))
		case token.GTR:
			return mk(app(">", at, bt))
		case token.GEQ:
			return mk(app(">=", at, bt))
		case token.AND, token.OR, token.XOR, token.SHL, token.SHR, token.AND_NOT:
			fn := map[token.Token]string{token.AND: "bitand", token.OR: "bitor", token.XOR: "bitxor", token.SHL: "shl", token.SHR: "shr", token.AND_NOT: "bitandnot"}[op]
			vc.sc.decl(fn, fmt.Sprintf("(declare-fun %s (Int Int) Int)", fn))
			return mk(app(fn, at, bt))
		}
	case "Real":
		switch op {
		case token.ADD:
			return mk(app("+", at, bt))
		case token.SUB:
			return mk(app("-", at, bt))
		case token.MUL:
			return mk(app("*", at, bt))
		case token.QUO:
			return mk(app("/", at, bt))
		case token.LSS:
			return mk(app("<", at, bt))
		case token.LEQ:
			return mk(app("<=", at, bt))
		case token.GTR:
			return mk(app(">", at, bt))
		case token.GEQ:
			return mk(app(">=", at, bt))
		}
	case "String":
		switch op {
		case token.ADD:
			return mk(app("str.++", at, bt))
		case token.LSS:
			return mk(app("str.<", at, bt))
		case token.LEQ:
			return mk(app("str.<=", at, bt))
		case token.GTR:
			return mk(app("str.<", bt, at))
		case token.GEQ:
			return mk(app("str.<=", bt, at))
		}
	case "Bool":
		switch op {
		case token.AND, token.LAND:
			return mk(and(at, bt))
		case token.OR, token.LOR:
			return mk(or(at, bt))
		}
	}
	unsupported("binop %s on %s in %s", op, srt, f.fn)
	return Val{}
}

func (f *Frame) convert(x *ssa.Convert) Val {
	vc := f.vc
	v := f.val(x.X)
	from, to := x.X.Type().Underlying(), x.Type().Underlying()
	fs, ts := vc.te.sortOf(from), vc.te.sortOf(to)
	switch {
	case fs == "Int" && ts == "Int":
		// integer conversions: mathematical integers (assumption A1); unsigned targets stay non-negative
		return Val{t: v.t, typ: x.Type()}
	case fs == "Int" && ts == "Real":
		return Val{t: app("to_real", v.t), typ: x.Type()}
	case fs == "Real" && ts == "Int":
		return Val{t: app("to_int", v.t), typ: x.Type()}
	case fs == "Real" && ts == "Real":
		return Val{t: v.t, typ: x.Type()}
	case fs == "Int" && ts == "String":
		// string(rune)
		vc.sc.decl("rune2str", "(declare-fun rune2str (Int) String)")
		vc.sc.declAxiom("rune2str", "(forall ((c Int)) (! (=> (and (>= c 0) (< c 128)) (= (rune2str c) (str.from_code c))) :pattern ((rune2str c))))", "rune2str")
		return Val{t: app("rune2str", v.t), typ: x.Type()}
	case fs == "String" && ts == "String":
		return Val{t: v.t, typ: x.Type()}
	case fs == "String" && ts == sortSlice:
		r := vc.freshVal("str2slice", x.Type())
		f.assume(f.tinv(x.Type(), r.t))
		if b, ok := to.(*types.Slice).Elem().Underlying().(*types.Basic); ok && b.Kind() == types.Uint8 {
			f.assume(eq(app("s_len", r.t), app("str.len", v.t)))
		} else {
			f.assume(app("<=", app("s_len", r.t), app("str.len", v.t)))
		}
		return r
	case fs == sortSlice && ts == "String":
		r := vc.freshVal("slice2str", x.Type())
		return r
	}
	unsupported("convert %s -> %s in %s", from, to, f.fn)
	return Val{}
}

func (f *Frame) typeAssert(x *ssa.TypeAssert) {
	vc := f.vc
	v := f.val(x.X)
	var ok string
	var res Val
	if types.IsInterface(x.AssertedType) {
		// interface-to-interface: succeeds for the concrete types that implement it; approximate with a fresh Bool
		// that is false for nil.
		okc := vc.sc.freshConst("implements", "Bool")
		f.assume(implies(eq(app("i_tag", v.t), "0"), not(okc)))
		iface := x.AssertedType.Underlying().(*types.Interface)
		if iface.NumMethods() == 0 {
			f.assume(eq(okc, not(eq(app("i_tag", v.t), "0"))))
		}
		ok = okc
		res = Val{t: ite(ok, v.t, "(mk_iface 0 0)"), typ: x.AssertedType}
	} else {
		tag := vc.te.tagOf(x.AssertedType)
		ok = eq(app("i_tag", v.t), fmt.Sprint(tag))
		res = Val{t: vc.sc.define("assert", vc.te.sortOf(x.AssertedType), ite(ok, vc.te.unbox(x.AssertedType, app("i_val", v.t)), vc.te.zero(x.AssertedType))), typ: x.AssertedType}
	}
	if x.CommaOk {
		f.vals[x] = Val{typ: x.Type(), tup: []Val{res, {t: ok, typ: types.Typ[types.Bool]}}}
		return
	}
	f.safe("assert", ok, "type assertion "+x.X.Name()+".("+typeKey(x.AssertedType)+")", x.Pos())
	f.vals[x] = res
}

func (f *Frame) sliceOp(x *ssa.Slice) {
	vc := f.vc
	base := f.val(x.X)
	var lo, hi, mx string
	if x.Low != nil {
		lo = f.val(x.Low).t
	} else {
		lo = "0"
	}
	switch xt := x.X.Type().Underlying().(type) {
	case *types.Basic: // string
		ln := app("str.len", base.t)
		if x.High != nil {
			hi = f.val(x.High).t
		} else {
			hi = ln
		}
		f.safe("slice", and(app("<=", "0", lo), app("<=", lo, hi), app("<=", hi, ln)), "string slice "+x.X.Name(), x.Pos())
		f.vals[x] = Val{t: vc.sc.define("substr", "String", app("str.substr", base.t, lo, app("-", hi, lo))), typ: x.Type()}
	case *types.Slice:
		arr, off, ln, cp := sliceParts(base.t)
		if x.High != nil {
			hi = f.val(x.High).t
		} else {
			hi = ln
		}
		if x.Max != nil {
			mx = f.val(x.Max).t
		} else {
			mx = cp
		}
		f.safe("slice", and(app("<=", "0", lo), app("<=", lo, hi), app("<=", hi, mx), app("<=", mx, cp)), "slice bounds "+x.X.Name(), x.Pos())
		f.vals[x] = Val{t: vc.sc.define("slice", sortSlice, app("mk_slice", arr, app("+", off, lo), app("-", hi, lo), app("-", mx, lo))), typ: x.Type()}
	case *types.Pointer: // pointer to array
		at := xt.Elem().Underlying().(*types.Array)
		n := num(at.Len())
		if x.High != nil {
			hi = f.val(x.High).t
		} else {
			hi = n
		}
		f.safe("slice", and(app("<=", "0", lo), app("<=", lo, hi), app("<=", hi, n)), "array slice", x.Pos())
		if isStruct(at.Elem()) && base.addr == nil {
			// the array of structs is its own backing array
			f.vals[x] = Val{t: vc.sc.define("slice", sortSlice, app("mk_slice", base.t, lo, app("-", hi, lo), app("-", n, lo))), typ: x.Type()}
			break
		}
		// copy the array into a fresh backing array (aliasing with the array variable is lost: reads only)
		if base.addr == nil {
			unsupported("slice of array pointer in %s", f.fn)
		}
		if isStruct(at.Elem()) {
			unsupported("slice of struct array")
		}
		arr := f.freshRef("arrslice")
		l, li := locElem(at.Elem())
		srt := li.sort(vc.te)
		vc.he.set(f.cur, l, srt, app("store", vc.he.get(f.cur, l, srt), arr, f.readAddr(base.addr)))
		vc.note("array-to-slice in %s: backing array copied (alias with the array variable not modelled)", f.fn)
		f.vals[x] = Val{t: vc.sc.define("slice", sortSlice, app("mk_slice", arr, lo, app("-", hi, lo), app("-", n, lo))), typ: x.Type()}
	default:
		unsupported("slice of %s", x.X.Type())
	}
}

func (f *Frame) mapRead(mt types.Type, m, k string) (val, ok string) {
	vc := f.vc
	l, li := locMapDom(mt)
	dom := app("select", app("select", vc.he.get(f.cur, l, li.sort(vc.te)), m), k)
	ok = and(not(eq(m, "0")), dom)
	l, li = locMapVal(mt)
	v := app("select", app("select", vc.he.get(f.cur, l, li.sort(vc.te)), m), k)
	et := mt.Underlying().(*types.Map).Elem()
	return ite(ok, v, vc.te.zero(et)), ok
}

func (f *Frame) lookup(x *ssa.Lookup) {
	vc := f.vc
	base := f.val(x.X)
	idx := f.materialize(f.val(x.Index))
	switch xt := x.X.Type().Underlying().(type) {
	case *types.Map:
		v, ok := f.mapRead(x.X.Type(), base.t, idx)
		et := xt.Elem()
		val := Val{t: vc.sc.define("mapget", vc.te.sortOf(et), v), typ: et}
		if sl, isSl := et.Underlying().(*types.Slice); isSl {
			_ = sl
			f.assume(f.tinv(et, val.t))
		}
		if x.CommaOk {
			f.vals[x] = Val{typ: x.Type(), tup: []Val{val, {t: vc.sc.define("mapok", "Bool", ok), typ: types.Typ[types.Bool]}}}
		} else {
			f.vals[x] = val
		}
	case *types.Basic:
		f.safe("idx", and(app("<=", "0", idx), app("<", idx, app("str.len", base.t))), "string index", x.Pos())
		f.vals[x] = Val{t: app("str.to_code", app("str.at", base.t, idx)), typ: x.Type()}
	default:
		unsupported("lookup on %s", x.X.Type())
	}
}

func (f *Frame) next(x *ssa.Next) {
	vc := f.vc
	if f.iter != nil && f.iter.next != nil {
		if v, ok := f.iter.next(x); ok {
			f.vals[x] = v
			return
		}
	}
	it := f.val(x.Iter)
	if it.rng == nil {
		unsupported("next on unknown iterator in %s", f.fn)
	}
	ok := vc.sc.freshConst("next.ok", "Bool")
	tt := x.Type().(*types.Tuple)
	if x.IsString {
		k := vc.sc.freshConst("next.k", "Int")
		r := vc.sc.freshConst("next.r", "Int")
		f.assume(implies(ok, and(app("<=", "0", k), app("<", k, app("str.len", it.rng.x.t)), app("<=", "0", r), app("<=", r, "1114111"))))
		// ASCII bytes decode to themselves
		f.assume(implies(and(ok, app("<", app("str.to_code", app("str.at", it.rng.x.t, k)), "128")), eq(r, app("str.to_code", app("str.at", it.rng.x.t, k)))))
		f.assume(implies(and(ok, app(">=", app("str.to_code", app("str.at", it.rng.x.t, k)), "128")), app(">=", r, "128")))
		f.vals[x] = Val{typ: x.Type(), tup: []Val{{t: ok, typ: types.Typ[types.Bool]}, {t: k, typ: types.Typ[types.Int]}, {t: r, typ: types.Typ[types.Rune]}}}
		return
	}
	mt := it.rng.typ
	m := it.rng.x.t
	kt := mt.Underlying().(*types.Map).Key()
	et := mt.Underlying().(*types.Map).Elem()
	k := vc.freshVal("next.k", kt)
	v, okIn := f.mapRead(mt, m, k.t)
	f.assume(implies(ok, okIn))
	if f.top {
		// ghost: the set of keys produced so far.  A key is produced at most once; when the
		// iteration ends every key that is (still) in the map has been produced - stated only for
		// loops that insert nothing into a map of this type (an entry created during the iteration
		// may be skipped, Go spec "For statements with range clause").
		sl, sli := seenLoc(f.fn, x.Iter), LocInfo{Kind: "SEEN", Key: kt}
		srt := sli.sort(vc.te)
		seen := vc.he.get(f.cur, sl, srt)
		f.assume(implies(ok, not(app("select", seen, k.t))))
		if li := f.loops[f.curB]; li != nil && vc.loopInsertsNothing(li, mt) {
			_, inAll := f.mapRead(mt, m, "bv!!seenk")
			f.assume(implies(not(ok), fmt.Sprintf("(forall ((bv!!seenk %s)) (! (=> %s (select %s bv!!seenk)) :pattern ((select %s bv!!seenk))))", vc.te.sortOf(kt), inAll, seen, seen)))
		}
		vc.he.set(f.cur, sl, srt, vc.sc.define("seen", srt, app("store", seen, k.t, "true")))
	}
	vv := Val{t: vc.sc.define("next.v", vc.te.sortOf(et), v), typ: et}
	f.assume(f.tinv(et, vv.t))
	f.assume(f.tinv(kt, k.t))
	_ = tt
	f.vals[x] = Val{typ: x.Type(), tup: []Val{{t: ok, typ: types.Typ[types.Bool]}, k, vv}}
}
