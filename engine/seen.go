package main

// Ghost "produced so far" sets for `for k := range m` over maps (see Frame.next).

import (
	"go/types"

	"golang.org/x/tools/go/ssa"
)

func seenLoc(fn *ssa.Function, iter ssa.Value) string {
	return "C:$seen:" + fn.Name() + ":" + iter.Name()
}

// the loop body inserts nothing into a map of type mt: no MapUpdate on that type in the body and
// no callee whose mod-set contains the map's domain location (the builtin `delete` is allowed)
func (vc *VC) loopInsertsNothing(li *loopInfo, mt types.Type) bool {
	dom, _ := locMapDom(mt)
	for b := range li.body {
		for _, ins := range b.Instrs {
			switch x := ins.(type) {
			case *ssa.MapUpdate:
				if l, _ := locMapDom(x.Map.Type()); l == dom {
					return false
				}
			case ssa.CallInstruction:
				c := x.Common()
				if _, isBuiltin := c.Value.(*ssa.Builtin); isBuiltin {
					continue
				}
				m := vc.callMod(c)
				if m.Top {
					return false
				}
				if _, hit := m.Locs[dom]; hit {
					return false
				}
			}
		}
	}
	return true
}

// the Next instruction (map range) in a loop header, if any
func mapNextOf(li *loopInfo) *ssa.Next {
	for _, ins := range li.header.Instrs {
		if nx, ok := ins.(*ssa.Next); ok && !nx.IsString {
			return nx
		}
	}
	return nil
}

// make visited(k) available in the clauses of a map-range loop
func (f *Frame) bindSeen(env *SpecEnv, li *loopInfo) {
	nx := mapNextOf(li)
	if nx == nil {
		return
	}
	it, ok := f.vals[nx.Iter]
	if !ok || it.rng == nil {
		return
	}
	mt, ok := it.rng.typ.Underlying().(*types.Map)
	if !ok {
		return
	}
	env.seen = seenLoc(f.fn, nx.Iter)
	env.seenK = mt.Key()
}
