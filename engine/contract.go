package main

// Contract obligations of the function under verification: loop invariants,
// variants, postconditions.

import (
	"fmt"
	"go/ast"
	"go/printer"
	"go/token"
	"strings"

	"golang.org/x/tools/go/ssa"
)

func (f *Frame) specEnv(st *State, phiVal func(*ssa.Phi) Val, phis []*ssa.Phi) *SpecEnv {
	vc := f.vc
	env := &SpecEnv{f: f, vars: map[string]Val{}, st: st, old: vc.entry, pkg: ""}
	if vc.contract != nil {
		env.pkg = vc.contract.Pkg
	}
	for i, p := range f.fn.Params {
		env.vars[p.Name()] = f.params[i]
		env.vars["entry_"+p.Name()] = f.params[i] // the value at entry, also where the name itself is loop-carried
	}
	// captured variables of a closure, by name
	for _, fv := range f.fn.FreeVars {
		if v, ok := f.vals[fv]; ok {
			if _, shadow := env.vars[fv.Name()]; !shadow {
				env.vars[fv.Name()] = v
			}
		}
	}
	// address-taken locals (Alloc) by source name, when the name is unique and already allocated
	seen := map[string]int{}
	for _, b := range f.fn.Blocks {
		for _, ins := range b.Instrs {
			if a, ok := ins.(*ssa.Alloc); ok && a.Comment != "" {
				seen[a.Comment]++
			}
		}
	}
	for _, b := range f.fn.Blocks {
		for _, ins := range b.Instrs {
			if a, ok := ins.(*ssa.Alloc); ok && a.Comment != "" && seen[a.Comment] == 1 {
				if v, done := f.vals[a]; done {
					if _, shadow := env.vars[a.Comment]; !shadow {
						env.vars[a.Comment] = v
					}
				}
			}
		}
	}
	// loop-carried locals by source name
	for _, p := range phis {
		if p.Comment != "" && phiVal != nil {
			_, shadow := env.vars[p.Comment]
			if shadow && f.paramNames()[p.Comment] {
				// a parameter that the loop reassigns: inside loop clauses its name means the current
				// value (old(name) is the value at entry), as in Gobra
				vc.note("loop clause of %s: parameter %s is loop-carried, its name denotes the current value", f.fn, p.Comment)
				shadow = false
			}
			if !shadow {
				env.vars[p.Comment] = phiVal(p)
			}
		}
	}
	return env
}

// split a clause into its top-level conjuncts (through parentheses and implications)
func conjuncts(e ast.Expr) []ast.Expr {
	switch x := e.(type) {
	case *ast.ParenExpr:
		return conjuncts(x.X)
	case *ast.BinaryExpr:
		if x.Op == token.LAND {
			return append(conjuncts(x.X), conjuncts(x.Y)...)
		}
	case *ast.CallExpr:
		if id, ok := x.Fun.(*ast.Ident); ok && id.Name == "imp" && len(x.Args) == 2 {
			var out []ast.Expr
			for _, c := range conjuncts(x.Args[1]) {
				out = append(out, &ast.CallExpr{Fun: x.Fun, Args: []ast.Expr{x.Args[0], c}})
			}
			return out
		}
		// spec function whose body is a conjunction: split it too (parameters substituted)
		if id, ok := x.Fun.(*ast.Ident); ok && specFuncsForSplit != nil {
			if sf := specFuncsForSplit[id.Name]; sf != nil && len(sf.Params) == len(x.Args) && !mentionsOld(x) && !(sf.Opaque && sf.Pkg != currentTopPkg) {
				sub := map[string]ast.Expr{}
				for i, p := range sf.Params {
					sub[p] = x.Args[i]
				}
				body := substExpr(sf.Body, sub)
				if parts := conjuncts(body); len(parts) > 1 {
					return parts
				}
			}
		}
	}
	return []ast.Expr{e}
}

var specFuncsForSplit map[string]*SpecFunc

func mentionsOld(e ast.Expr) bool {
	found := false
	ast.Inspect(e, func(n ast.Node) bool {
		if id, ok := n.(*ast.Ident); ok && id.Name == "old" {
			found = true
		}
		return true
	})
	return found
}

// copy of e with identifiers replaced (used to expand spec functions syntactically)
func substExpr(e ast.Expr, sub map[string]ast.Expr) ast.Expr {
	switch x := e.(type) {
	case *ast.Ident:
		if r, ok := sub[x.Name]; ok {
			return &ast.ParenExpr{X: r}
		}
		return x
	case *ast.ParenExpr:
		return &ast.ParenExpr{X: substExpr(x.X, sub)}
	case *ast.BinaryExpr:
		return &ast.BinaryExpr{X: substExpr(x.X, sub), Op: x.Op, Y: substExpr(x.Y, sub)}
	case *ast.UnaryExpr:
		return &ast.UnaryExpr{Op: x.Op, X: substExpr(x.X, sub)}
	case *ast.SelectorExpr:
		return &ast.SelectorExpr{X: substExpr(x.X, sub), Sel: x.Sel}
	case *ast.IndexExpr:
		return &ast.IndexExpr{X: substExpr(x.X, sub), Index: substExpr(x.Index, sub)}
	case *ast.SliceExpr:
		n := &ast.SliceExpr{X: substExpr(x.X, sub)}
		if x.Low != nil {
			n.Low = substExpr(x.Low, sub)
		}
		if x.High != nil {
			n.High = substExpr(x.High, sub)
		}
		return n
	case *ast.CallExpr:
		n := &ast.CallExpr{Fun: x.Fun}
		if _, isSel := x.Fun.(*ast.SelectorExpr); isSel {
			n.Fun = substExpr(x.Fun, sub)
		}
		for i, a := range x.Args {
			// bound variable of forall/exists shadows
			if id, ok := x.Fun.(*ast.Ident); ok && (id.Name == "forall" || id.Name == "exists") && i == 0 {
				n.Args = append(n.Args, a)
				continue
			}
			n.Args = append(n.Args, substExpr(a, sub))
		}
		return n
	}
	return e
}

func exprText(e ast.Expr) string {
	var b strings.Builder
	printer.Fprint(&b, token.NewFileSet(), e)
	return b.String()
}

func (f *Frame) checkInvariants(li *loopInfo, kind string, phiVal func(*ssa.Phi) Val, phis []*ssa.Phi, st *State) {
	vc := f.vc
	if !f.top || vc.contract == nil {
		return
	}
	env := f.specEnv(st, phiVal, phis)
	f.bindNamesBefore(env, li.header)
	f.bindSeen(env, li)
	for ci, c := range vc.contract.LoopInv[li.ordinal] {
		for ji, cj := range conjuncts(c.Expr) {
			g := env.evalBool(cj)
			f.oblige(fmt.Sprintf("%s:%d.%d.%d", kind, li.ordinal, ci, ji), g, fmt.Sprintf("loop %d invariant %s", li.ordinal, exprText(cj)), li.header.Instrs[0].Pos(), c.Tags, true)
		}
	}
}

func (f *Frame) assumeInvariants(li *loopInfo, phis []*ssa.Phi, st *State) {
	vc := f.vc
	if !f.top || vc.contract == nil {
		return
	}
	env := f.specEnv(st, func(p *ssa.Phi) Val { return f.vals[p] }, phis)
	f.bindNamesBefore(env, li.header)
	f.bindSeen(env, li)
	for _, c := range vc.contract.LoopInv[li.ordinal] {
		f.assume(env.evalBool(c.Expr))
	}
}

func (f *Frame) evalMeasureExprs(exprs []ast.Expr, env *SpecEnv) []string {
	var out []string
	for _, e := range exprs {
		out = append(out, boolToInt(env.rv(env.eval(e))))
	}
	return out
}

func (f *Frame) evalMeasure(li *loopInfo, phis []*ssa.Phi, st *State) []string {
	vc := f.vc
	if !f.top || vc.contract == nil {
		return nil
	}
	c := vc.contract.LoopDecr[li.ordinal]
	if c == nil {
		return nil
	}
	env := f.specEnv(st, func(p *ssa.Phi) Val { return f.vals[p] }, phis)
	var out []string
	for _, e := range c.Exprs {
		out = append(out, vc.sc.define(fmt.Sprintf("measure%d", li.ordinal), "Int", boolToInt(env.rv(env.eval(e)))))
	}
	return out
}

func boolToInt(v Val) string {
	if v.typ != nil && v.typ.String() == "bool" {
		return ite(v.t, "1", "0")
	}
	return v.t
}

func (f *Frame) checkMeasure(li *loopInfo, phiVal func(*ssa.Phi) Val, phis []*ssa.Phi, st *State) {
	vc := f.vc
	if !f.top || vc.contract == nil {
		return
	}
	c := vc.contract.LoopDecr[li.ordinal]
	if c == nil {
		// `for range` over a slice, string or map visits finitely many elements (the bound is
		// evaluated once): such loops terminate by the language definition
		if c := li.header.Comment; c == "rangeindex.loop" || c == "rangeiter.loop" {
			return
		}
		if vc.contract.Terminates {
			f.oblige(fmt.Sprintf("dec:loop%d", li.ordinal), "false", fmt.Sprintf("loop %d has no decreases clause", li.ordinal), li.header.Instrs[0].Pos(), vc.contract.TermTags, true)
		}
		return
	}
	env := f.specEnv(st, phiVal, phis)
	var cur []string
	for _, e := range c.Exprs {
		cur = append(cur, boolToInt(env.rv(env.eval(e))))
	}
	f.oblige(fmt.Sprintf("dec:loop%d", li.ordinal), lexLess(cur, li.measure0), fmt.Sprintf("loop %d decreases %s", li.ordinal, c.Text), li.header.Instrs[0].Pos(), c.Tags, true)
}

func (f *Frame) checkPost(vs []Val, pos token.Pos) {
	vc := f.vc
	if vc.contract == nil {
		return
	}
	env := f.specEnv(f.cur, nil, nil)
	env.result = vs
	// loop-carried variables of loops that dominate this return, by name: their value when the
	// loop header was last entered (for loops that leave from the header: the final value)
	for h := range f.loops {
		if h != f.curB && !h.Dominates(f.curB) {
			continue
		}
		for _, ins := range h.Instrs {
			p, ok := ins.(*ssa.Phi)
			if !ok {
				break
			}
			if v, done := f.vals[p]; done && p.Comment != "" {
				if _, shadow := env.vars[p.Comment]; !shadow {
					env.vars[p.Comment] = v
				}
			}
		}
	}
	res := f.fn.Signature.Results()
	for i := 0; i < res.Len(); i++ {
		if n := res.At(i).Name(); n != "" && n != "_" {
			env.vars[n] = vs[i]
		}
	}
	for ci, c := range vc.contract.Ensures {
		for ji, cj := range conjuncts(c.Expr) {
			g := env.evalBool(cj)
			if ob := f.oblige(fmt.Sprintf("post:%d.%d", ci, ji), g, "ensures "+exprText(cj), pos, c.Tags, true); ob != nil {
				ob.Clause = cj
				ob.ClausePkg = vc.contract.Pkg
			}
		}
	}
}
