package main

// Contract obligations of the function under verification: loop invariants,
// variants, postconditions.

import (
	"fmt"
	"go/ast"
	"go/token"

	"golang.org/x/tools/go/ssa"
)

func (f *Frame) specEnv(st *State, phiVal func(*ssa.Phi) Val, phis []*ssa.Phi) *SpecEnv {
	vc := f.vc
	env := &SpecEnv{f: f, vars: map[string]Val{}, st: st, old: vc.entry, pkg: ""}
	if vc.contract != nil {
		env.pkg = vc.contract.Pkg
	}
	for i, p := range f.fn.Params {
		env.vars[p.Name()] = f.params[i]
	}
	// loop-carried locals by source name
	for _, p := range phis {
		if p.Comment != "" && phiVal != nil {
			if _, shadow := env.vars[p.Comment]; !shadow {
				env.vars[p.Comment] = phiVal(p)
			}
		}
	}
	return env
}

func (f *Frame) checkInvariants(li *loopInfo, kind string, phiVal func(*ssa.Phi) Val, phis []*ssa.Phi, st *State) {
	vc := f.vc
	if !f.top || vc.contract == nil {
		return
	}
	env := f.specEnv(st, phiVal, phis)
	for ci, c := range vc.contract.LoopInv[li.ordinal] {
		g := env.evalBool(c.Expr)
		f.oblige(fmt.Sprintf("%s:%d.%d", kind, li.ordinal, ci), g, fmt.Sprintf("loop %d invariant %s", li.ordinal, c.Text), li.header.Instrs[0].Pos(), c.Tags, true)
	}
}

func (f *Frame) assumeInvariants(li *loopInfo, phis []*ssa.Phi, st *State) {
	vc := f.vc
	if !f.top || vc.contract == nil {
		return
	}
	env := f.specEnv(st, func(p *ssa.Phi) Val { return f.vals[p] }, phis)
	for _, c := range vc.contract.LoopInv[li.ordinal] {
		f.assume(env.evalBool(c.Expr))
	}
}

func (f *Frame) evalMeasureExprs(exprs []ast.Expr, env *SpecEnv) []string {
	var out []string
	for _, e := range exprs {
		out = append(out, boolToInt(env.rv(env.eval(e))))
	}
	return out
}

func (f *Frame) evalMeasure(li *loopInfo, phis []*ssa.Phi, st *State) []string {
	vc := f.vc
	if !f.top || vc.contract == nil {
		return nil
	}
	c := vc.contract.LoopDecr[li.ordinal]
	if c == nil {
		return nil
	}
	env := f.specEnv(st, func(p *ssa.Phi) Val { return f.vals[p] }, phis)
	var out []string
	for _, e := range c.Exprs {
		out = append(out, vc.sc.define(fmt.Sprintf("measure%d", li.ordinal), "Int", boolToInt(env.rv(env.eval(e)))))
	}
	return out
}

func boolToInt(v Val) string {
	if v.typ != nil && v.typ.String() == "bool" {
		return ite(v.t, "1", "0")
	}
	return v.t
}

func (f *Frame) checkMeasure(li *loopInfo, phiVal func(*ssa.Phi) Val, phis []*ssa.Phi, st *State) {
	vc := f.vc
	if !f.top || vc.contract == nil {
		return
	}
	c := vc.contract.LoopDecr[li.ordinal]
	if c == nil {
		if vc.contract.Terminates {
			f.oblige(fmt.Sprintf("dec:loop%d", li.ordinal), "false", fmt.Sprintf("loop %d has no decreases clause", li.ordinal), li.header.Instrs[0].Pos(), nil, true)
		}
		return
	}
	env := f.specEnv(st, phiVal, phis)
	var cur []string
	for _, e := range c.Exprs {
		cur = append(cur, boolToInt(env.rv(env.eval(e))))
	}
	f.oblige(fmt.Sprintf("dec:loop%d", li.ordinal), lexLess(cur, li.measure0), fmt.Sprintf("loop %d decreases %s", li.ordinal, c.Text), li.header.Instrs[0].Pos(), c.Tags, true)
}

func (f *Frame) checkPost(vs []Val, pos token.Pos) {
	vc := f.vc
	if vc.contract == nil {
		return
	}
	env := f.specEnv(f.cur, nil, nil)
	env.result = vs
	res := f.fn.Signature.Results()
	for i := 0; i < res.Len(); i++ {
		if n := res.At(i).Name(); n != "" && n != "_" {
			env.vars[n] = vs[i]
		}
	}
	for ci, c := range vc.contract.Ensures {
		g := env.evalBool(c.Expr)
		f.oblige(fmt.Sprintf("post:%d", ci), g, "ensures "+c.Text, pos, c.Tags, true)
	}
}
