package main

// Case analysis on merge conditions.  A state merge defines heaps and loop-carried values as
// (ite edge!N a b).  Quantifier instantiation by E-matching does not split on such a condition,
// so an obligation that is easy in each branch can stay undecided.  solveByCases re-runs the
// query once per truth assignment of the (up to two) most recent merge conditions it mentions;
// the obligation is discharged only if every case is `unsat`.

import (
	"fmt"
	"regexp"
)

var iteCondRe = regexp.MustCompile(`\(ite (\|edge![0-9]+\|)`)

func solveByCases(ob *Obligation, text string, o SolveOpts) (solveResult, bool) {
	// merge conditions in order of appearance; the last ones belong to the latest merges
	var conds []string
	seen := map[string]bool{}
	for _, m := range iteCondRe.FindAllStringSubmatch(text, -1) {
		if !seen[m[1]] {
			seen[m[1]] = true
			conds = append(conds, m[1])
		}
	}
	if len(conds) == 0 {
		return solveResult{}, false
	}
	if len(conds) > 2 {
		conds = conds[len(conds)-2:]
	}
	total := 0.0
	n := 1 << len(conds)
	for mask := 0; mask < n; mask++ {
		var extra []string
		for i, c := range conds {
			if mask&(1<<i) != 0 {
				extra = append(extra, c)
			} else {
				extra = append(extra, not(c))
			}
		}
		q := ob.script.render(ob, extra, nil)
		r := solveText(q, obFile(o.Dir, ob)+fmt.Sprintf(".case%d.smt2", mask), o)
		total += r.secs
		if r.status != "unsat" {
			return solveResult{}, false
		}
	}
	return solveResult{status: "unsat", solver: fmt.Sprintf("z3-5.1.0 case split on %d merge condition(s)", len(conds)), secs: total}, true
}
