package main

// Replay of failed postconditions: the clause is encoded as a small expression tree that a
// generic interpreter (emitted into the generated test, working on reflect.Values so that
// unexported fields of other packages can be read) evaluates on the real post-state.

import (
	"encoding/json"
	"fmt"
	"go/ast"
	"go/token"
	"strconv"
	"strings"

	"golang.org/x/tools/go/ssa"
)

type specNode struct {
	Op   string      `json:"op"`
	Name string      `json:"name,omitempty"`
	I    int         `json:"i,omitempty"`
	S    string      `json:"s,omitempty"`
	N    int64       `json:"n,omitempty"`
	B    bool        `json:"b,omitempty"`
	Args []*specNode `json:"args,omitempty"`
}

type specEncoder struct {
	eng     *Engine
	fn      *ssa.Function
	pkg     string
	params  map[string]int
	results map[string]int
	olds    []*specNode
	funcs   map[string]string // name in table -> Go expression
	globals map[string]string
	depth   int
	inOld   bool
	bound   map[string]bool
}

type encErr struct{ msg string }

func (e *specEncoder) fail(format string, a ...any) { panic(encErr{fmt.Sprintf(format, a...)}) }

func (e *specEncoder) enc(x ast.Expr) *specNode {
	switch v := x.(type) {
	case *ast.ParenExpr:
		return e.enc(v.X)
	case *ast.BasicLit:
		switch v.Kind {
		case token.INT:
			n, _ := strconv.ParseInt(v.Value, 0, 64)
			return &specNode{Op: "int", N: n}
		case token.CHAR:
			r, _, _, _ := strconv.UnquoteChar(v.Value[1:len(v.Value)-1], '\'')
			return &specNode{Op: "int", N: int64(r)}
		case token.STRING:
			s, _ := strconv.Unquote(v.Value)
			return &specNode{Op: "str", S: s}
		}
	case *ast.Ident:
		switch v.Name {
		case "true":
			return &specNode{Op: "bool", B: true}
		case "false":
			return &specNode{Op: "bool", B: false}
		case "nil":
			return &specNode{Op: "nil"}
		case "result", "result0":
			return &specNode{Op: "result", I: 0}
		case "result1":
			return &specNode{Op: "result", I: 1}
		case "result2":
			return &specNode{Op: "result", I: 2}
		}
		if e.bound[v.Name] {
			return &specNode{Op: "var", Name: v.Name}
		}
		if i, ok := e.params[v.Name]; ok {
			return &specNode{Op: "param", I: i}
		}
		if i, ok := e.results[v.Name]; ok {
			return &specNode{Op: "result", I: i}
		}
		return e.pkgName(e.pkg, v.Name)
	case *ast.UnaryExpr:
		return &specNode{Op: "un", S: v.Op.String(), Args: []*specNode{e.enc(v.X)}}
	case *ast.BinaryExpr:
		return &specNode{Op: "bin", S: v.Op.String(), Args: []*specNode{e.enc(v.X), e.enc(v.Y)}}
	case *ast.SelectorExpr:
		if id, ok := v.X.(*ast.Ident); ok {
			if _, isParam := e.params[id.Name]; !isParam {
				if pp := e.eng.pkgByName(id.Name); pp != "" {
					return e.pkgName(pp, v.Sel.Name)
				}
			}
		}
		return &specNode{Op: "field", Name: v.Sel.Name, Args: []*specNode{e.enc(v.X)}}
	case *ast.IndexExpr:
		return &specNode{Op: "index", Args: []*specNode{e.enc(v.X), e.enc(v.Index)}}
	case *ast.SliceExpr:
		n := &specNode{Op: "slice", Args: []*specNode{e.enc(v.X), {Op: "none"}, {Op: "none"}}}
		if v.Low != nil {
			n.Args[1] = e.enc(v.Low)
		}
		if v.High != nil {
			n.Args[2] = e.enc(v.High)
		}
		return n
	case *ast.CallExpr:
		name := ""
		pkg := e.pkg
		switch f := v.Fun.(type) {
		case *ast.Ident:
			name = f.Name
		case *ast.SelectorExpr:
			if id, ok := f.X.(*ast.Ident); ok {
				if pp := e.eng.pkgByName(id.Name); pp != "" {
					pkg = pp
					name = f.Sel.Name
				}
			}
			if name == "" {
				e.fail("method call in clause")
			}
		}
		switch name {
		case "old":
			if e.inOld {
				return e.enc(v.Args[0])
			}
			e.inOld = true
			inner := e.enc(v.Args[0])
			e.inOld = false
			e.olds = append(e.olds, inner)
			return &specNode{Op: "old", I: len(e.olds) - 1}
		case "imp":
			return &specNode{Op: "imp", Args: []*specNode{e.enc(v.Args[0]), e.enc(v.Args[1])}}
		case "ite":
			return &specNode{Op: "ite", Args: []*specNode{e.enc(v.Args[0]), e.enc(v.Args[1]), e.enc(v.Args[2])}}
		case "len", "cap", "isnil", "unboxint":
			return &specNode{Op: name, Args: []*specNode{e.enc(v.Args[0])}}
		case "has":
			return &specNode{Op: "has", Args: []*specNode{e.enc(v.Args[0]), e.enc(v.Args[1])}}
		case "typeis", "unbox":
			ts, _ := strconv.Unquote(v.Args[1].(*ast.BasicLit).Value)
			return &specNode{Op: name, S: ts, Args: []*specNode{e.enc(v.Args[0])}}
		case "int", "rune", "int64":
			return e.enc(v.Args[0])
		case "forall", "exists":
			// integer quantifiers are evaluated over a bounded range that covers every index of the
			// (small) replayed slices
			if len(v.Args) != 2 {
				e.fail("typed quantifier cannot be evaluated at run time")
			}
			id := v.Args[0].(*ast.Ident).Name
			if e.bound == nil {
				e.bound = map[string]bool{}
			}
			saved := e.bound[id]
			e.bound[id] = true
			body := e.enc(v.Args[1])
			e.bound[id] = saved
			return &specNode{Op: name, Name: id, Args: []*specNode{body}}
		case "offof":
			return &specNode{Op: "int", N: 0} // offsets are not observable at run time: indices are relative
		case "absat":
			return &specNode{Op: "index", Args: []*specNode{e.enc(v.Args[0]), e.enc(v.Args[1])}}
		case "arrof", "selfcall", "cntnl", "nlwritten":
			e.fail("%s cannot be evaluated at run time", name)
		}
		if sf, ok := e.eng.specFuncs[name]; ok {
			if e.depth > 20 || len(sf.Params) != len(v.Args) {
				e.fail("spec function %s", name)
			}
			sub := map[string]ast.Expr{}
			for i, p := range sf.Params {
				sub[p] = v.Args[i]
			}
			e.depth++
			savedPkg := e.pkg
			// names inside the body resolve in the spec function's package first
			e.pkg = sf.Pkg
			n := e.enc(substExpr(sf.Body, sub))
			e.pkg = savedPkg
			e.depth--
			return n
		}
		// real function
		key := pkg + "." + name
		goName := ""
		self := e.fn.Pkg.Pkg.Path()
		if p := e.eng.prog.ImportedPackage(pkg); p != nil && p.Func(name) != nil {
			if pkg == self {
				goName = name
			} else if ast.IsExported(name) {
				goName = p.Pkg.Name() + "." + name
			}
		}
		if goName == "" {
			// try the module packages (spec bodies expanded across packages)
			for _, pp := range e.eng.modulePkgs() {
				if p := e.eng.prog.ImportedPackage(pp); p != nil && p.Func(name) != nil {
					if pp == self {
						goName = name
					} else if ast.IsExported(name) {
						goName = p.Pkg.Name() + "." + name
						pkg = pp
					}
					key = pp + "." + name
				}
			}
		}
		if goName == "" {
			e.fail("function %s not callable from the test package", key)
		}
		e.funcs[key] = goName
		if pkg != self {
			e.funcs["import:"+pkg] = ""
		}
		n := &specNode{Op: "call", S: key}
		for _, a := range v.Args {
			n.Args = append(n.Args, e.enc(a))
		}
		return n
	}
	e.fail("expression %T", x)
	return nil
}

func (e *specEncoder) pkgName(pkgPath, name string) *specNode {
	self := e.fn.Pkg.Pkg.Path()
	try := []string{pkgPath}
	try = append(try, e.eng.modulePkgs()...)
	for _, pp := range try {
		p := e.eng.prog.ImportedPackage(pp)
		if p == nil {
			continue
		}
		switch m := p.Members[name].(type) {
		case *ssa.NamedConst:
			if i, ok := constInt(m); ok {
				return &specNode{Op: "int", N: i}
			}
		case *ssa.Global:
			if pp == self {
				e.globals[name] = "&" + name
				return &specNode{Op: "global", S: name}
			}
			if ast.IsExported(name) {
				e.globals[p.Pkg.Name()+"."+name] = "&" + p.Pkg.Name() + "." + name
				e.funcs["import:"+pp] = ""
				return &specNode{Op: "global", S: p.Pkg.Name() + "." + name}
			}
			e.fail("global %s.%s is not visible from the test package", pp, name)
		}
	}
	e.fail("unknown name %s", name)
	return nil
}

func constInt(c *ssa.NamedConst) (int64, bool) {
	if c.Value == nil || c.Value.Value == nil {
		return 0, false
	}
	s := c.Value.Value.ExactString()
	n, err := strconv.ParseInt(s, 10, 64)
	return n, err == nil
}

// encode the failing clause; ok=false when it cannot be evaluated at run time
func (eng *Engine) encodeClause(fn *ssa.Function, pkg string, clause ast.Expr) (enc *specEncoder, root *specNode, why string) {
	enc = &specEncoder{eng: eng, fn: fn, pkg: pkg, params: map[string]int{}, results: map[string]int{}, funcs: map[string]string{}, globals: map[string]string{}}
	for i, p := range fn.Params {
		enc.params[p.Name()] = i
	}
	res := fn.Signature.Results()
	for i := 0; i < res.Len(); i++ {
		if n := res.At(i).Name(); n != "" && n != "_" {
			enc.results[n] = i
		}
	}
	defer func() {
		if r := recover(); r != nil {
			if ee, ok := r.(encErr); ok {
				root = nil
				why = ee.msg
				return
			}
			panic(r)
		}
	}()
	root = enc.enc(clause)
	return
}

func mustJSON(v any) string {
	b, _ := json.Marshal(v)
	return string(b)
}

// Go source of the interpreter (appended to the generated test)
const specInterp = `
type vrNode struct {
	Op   string    ` + "`json:\"op\"`" + `
	Name string    ` + "`json:\"name\"`" + `
	I    int       ` + "`json:\"i\"`" + `
	S    string    ` + "`json:\"s\"`" + `
	N    int64     ` + "`json:\"n\"`" + `
	B    bool      ` + "`json:\"b\"`" + `
	Args []*vrNode ` + "`json:\"args\"`" + `
}

type vrEnv struct {
	params  []reflect.Value
	results []reflect.Value
	olds    []reflect.Value
	vars    map[string]int64
}

func vrDeref(v reflect.Value) reflect.Value {
	for v.IsValid() && v.Kind() == reflect.Ptr && !v.IsNil() {
		v = v.Elem()
	}
	return v
}

func vrInt(v reflect.Value) int64 {
	switch v.Kind() {
	case reflect.Int, reflect.Int8, reflect.Int16, reflect.Int32, reflect.Int64:
		return v.Int()
	case reflect.Uint, reflect.Uint8, reflect.Uint16, reflect.Uint32, reflect.Uint64:
		return int64(v.Uint())
	case reflect.Bool:
		if v.Bool() {
			return 1
		}
		return 0
	}
	panic("vr: not an integer: " + v.Kind().String())
}

func vrReadable(v reflect.Value) reflect.Value {
	if v.IsValid() && v.CanAddr() && !v.CanInterface() {
		return reflect.NewAt(v.Type(), unsafe.Pointer(v.UnsafeAddr())).Elem()
	}
	return v
}

func vrEq(a, b reflect.Value) bool {
	if !a.IsValid() || !b.IsValid() {
		// comparison with nil
		x := a
		if !x.IsValid() {
			x = b
		}
		if !x.IsValid() {
			return true
		}
		switch x.Kind() {
		case reflect.Ptr, reflect.Map, reflect.Slice, reflect.Interface, reflect.Func:
			return x.IsNil()
		}
		return false
	}
	switch a.Kind() {
	case reflect.Bool:
		return a.Bool() == (vrInt(b) != 0)
	case reflect.String:
		return a.String() == b.String()
	case reflect.Slice:
		return a.Len() == b.Len() && (a.Len() == 0 && a.IsNil() == b.IsNil() || a.Len() > 0 && a.Pointer() == b.Pointer())
	case reflect.Ptr:
		return a.Pointer() == b.Pointer()
	case reflect.Struct:
		return reflect.DeepEqual(vrCopy(a).Interface(), vrCopy(b).Interface())
	case reflect.Interface:
		if a.IsNil() || b.IsNil() {
			return a.IsNil() && b.IsNil()
		}
		return vrEq(a.Elem(), b.Elem())
	}
	return vrInt(a) == vrInt(b)
}

func vrCopy(v reflect.Value) reflect.Value {
	c := reflect.New(v.Type()).Elem()
	c.Set(vrReadable(v))
	return c
}

func vrBool(v reflect.Value) bool { return v.Bool() }

func (e *vrEnv) eval(n *vrNode) reflect.Value {
	switch n.Op {
	case "int":
		return reflect.ValueOf(n.N)
	case "str":
		return reflect.ValueOf(n.S)
	case "bool":
		return reflect.ValueOf(n.B)
	case "nil", "none":
		return reflect.Value{}
	case "var":
		return reflect.ValueOf(e.vars[n.Name])
	case "forall", "exists":
		if e.vars == nil {
			e.vars = map[string]int64{}
		}
		saved, had := e.vars[n.Name]
		res := n.Op == "forall"
		for i := int64(-2); i <= 16; i++ {
			e.vars[n.Name] = i
			ok := func() (b bool) {
				defer func() {
					if r := recover(); r != nil {
						b = n.Op == "forall" // out-of-range reads: the guard of the body excludes them
					}
				}()
				return vrBool(e.eval(n.Args[0]))
			}()
			if n.Op == "forall" && !ok {
				res = false
			}
			if n.Op == "exists" && ok {
				res = true
			}
		}
		if had {
			e.vars[n.Name] = saved
		} else {
			delete(e.vars, n.Name)
		}
		return reflect.ValueOf(res)
	case "param":
		return e.params[n.I]
	case "result":
		return e.results[n.I]
	case "old":
		return e.olds[n.I]
	case "global":
		return reflect.ValueOf(vrGlobals[n.S]).Elem()
	case "field":
		x := vrDeref(e.eval(n.Args[0]))
		f := x.FieldByName(n.Name)
		if !f.IsValid() {
			panic("vr: no field " + n.Name)
		}
		return vrReadable(f)
	case "index":
		x := vrDeref(e.eval(n.Args[0]))
		k := e.eval(n.Args[1])
		if x.Kind() == reflect.Map {
			r := x.MapIndex(k.Convert(x.Type().Key()))
			if !r.IsValid() {
				return reflect.Zero(x.Type().Elem())
			}
			return r
		}
		if x.Kind() == reflect.String {
			return reflect.ValueOf(int64(x.String()[vrInt(k)]))
		}
		return vrReadable(x.Index(int(vrInt(k))))
	case "slice":
		x := vrDeref(e.eval(n.Args[0]))
		lo, hi := 0, x.Len()
		if n.Args[1].Op != "none" {
			lo = int(vrInt(e.eval(n.Args[1])))
		}
		if n.Args[2].Op != "none" {
			hi = int(vrInt(e.eval(n.Args[2])))
		}
		return x.Slice(lo, hi)
	case "len":
		return reflect.ValueOf(int64(vrDeref(e.eval(n.Args[0])).Len()))
	case "cap":
		return reflect.ValueOf(int64(vrDeref(e.eval(n.Args[0])).Cap()))
	case "isnil":
		return reflect.ValueOf(vrEq(e.eval(n.Args[0]), reflect.Value{}))
	case "has":
		m := vrDeref(e.eval(n.Args[0]))
		k := e.eval(n.Args[1])
		return reflect.ValueOf(!m.IsNil() && m.MapIndex(k.Convert(m.Type().Key())).IsValid())
	case "typeis":
		x := e.eval(n.Args[0])
		if x.Kind() != reflect.Interface || x.IsNil() {
			return reflect.ValueOf(false)
		}
		t := x.Elem().Type()
		name := t.Name()
		if t.PkgPath() != "" {
			name = t.PkgPath() + "." + t.Name()
		}
		want := n.S
		if want == "rune" {
			want = "int32"
		}
		return reflect.ValueOf(name == want)
	case "unbox":
		return e.eval(n.Args[0]).Elem()
	case "unboxint":
		return reflect.ValueOf(vrInt(e.eval(n.Args[0]).Elem()))
	case "imp":
		return reflect.ValueOf(!vrBool(e.eval(n.Args[0])) || vrBool(e.eval(n.Args[1])))
	case "ite":
		if vrBool(e.eval(n.Args[0])) {
			return e.eval(n.Args[1])
		}
		return e.eval(n.Args[2])
	case "un":
		x := e.eval(n.Args[0])
		if n.S == "!" {
			return reflect.ValueOf(!vrBool(x))
		}
		return reflect.ValueOf(-vrInt(x))
	case "bin":
		switch n.S {
		case "&&":
			return reflect.ValueOf(vrBool(e.eval(n.Args[0])) && vrBool(e.eval(n.Args[1])))
		case "||":
			return reflect.ValueOf(vrBool(e.eval(n.Args[0])) || vrBool(e.eval(n.Args[1])))
		}
		a, b := e.eval(n.Args[0]), e.eval(n.Args[1])
		switch n.S {
		case "==":
			return reflect.ValueOf(vrEq(a, b))
		case "!=":
			return reflect.ValueOf(!vrEq(a, b))
		}
		if a.IsValid() && a.Kind() == reflect.String {
			switch n.S {
			case "+":
				return reflect.ValueOf(a.String() + b.String())
			case "<":
				return reflect.ValueOf(a.String() < b.String())
			case "<=":
				return reflect.ValueOf(a.String() <= b.String())
			case ">":
				return reflect.ValueOf(a.String() > b.String())
			case ">=":
				return reflect.ValueOf(a.String() >= b.String())
			}
		}
		x, y := vrInt(a), vrInt(b)
		switch n.S {
		case "+":
			return reflect.ValueOf(x + y)
		case "-":
			return reflect.ValueOf(x - y)
		case "*":
			return reflect.ValueOf(x * y)
		case "/":
			return reflect.ValueOf(x / y)
		case "%":
			return reflect.ValueOf(x % y)
		case "<":
			return reflect.ValueOf(x < y)
		case "<=":
			return reflect.ValueOf(x <= y)
		case ">":
			return reflect.ValueOf(x > y)
		case ">=":
			return reflect.ValueOf(x >= y)
		}
	case "call":
		fn := reflect.ValueOf(vrFuncs[n.S])
		var args []reflect.Value
		for i, a := range n.Args {
			v := e.eval(a)
			pt := fn.Type().In(i)
			if !v.IsValid() {
				v = reflect.Zero(pt)
			} else if v.Type() != pt {
				if pt.Kind() == reflect.Ptr && v.Kind() != reflect.Ptr && v.CanAddr() {
					v = v.Addr()
				} else {
					v = v.Convert(pt)
				}
			}
			args = append(args, v)
		}
		out := fn.Call(args)
		if len(out) == 0 {
			return reflect.Value{}
		}
		return out[0]
	}
	panic("vr: cannot evaluate " + n.Op + " " + n.S)
}

func vrParse(s string) *vrNode {
	var n vrNode
	if err := json.Unmarshal([]byte(s), &n); err != nil {
		panic(err)
	}
	return &n
}

// old values must not change when the function mutates memory: copy scalars/strings/structs
func vrSnapshot(v reflect.Value) reflect.Value {
	if !v.IsValid() {
		return v
	}
	switch v.Kind() {
	case reflect.Ptr, reflect.Map, reflect.Slice, reflect.Interface, reflect.Func:
		return vrCopy(v)
	}
	return vrCopy(v)
}
`

var _ = strings.TrimSpace
