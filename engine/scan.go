package main

// Zero-annotation landscape scan: safety obligations (nil/idx/slice/assert/mapnil/div/panic) of
// every function of the given packages, without contracts.  Used to decide which functions can
// be put under `safe` contracts; its output is informational and never evidence.

import (
	"flag"
	"fmt"
	"os"
	"sort"
	"strings"
)

func cmdScan(args []string) {
	fs := flag.NewFlagSet("scan", flag.ExitOnError)
	repo := fs.String("repo", "/repo", "repository")
	pkgs := fs.String("pkgs", "", "comma separated package paths")
	timeout := fs.Int("timeout", 3000, "per query timeout ms")
	verbose := fs.Bool("v", false, "list failing obligations")
	fs.Parse(args)
	eng, err := loadEngine(*repo, nil)
	if err != nil {
		fmt.Fprintln(os.Stderr, err)
		os.Exit(2)
	}
	want := map[string]bool{}
	for _, p := range strings.Split(*pkgs, ",") {
		want[p] = true
	}
	dir, _ := os.MkdirTemp("", "govcscan")
	defer os.RemoveAll(dir)
	var names []string
	for _, fn := range eng.allFuncs {
		if fn.Blocks == nil || fn.Pkg == nil || !want[fn.Pkg.Pkg.Path()] || fn.Synthetic != "" {
			continue
		}
		names = append(names, fn.String())
	}
	sort.Strings(names)
	tot, totFail, clean := 0, 0, 0
	for _, n := range names {
		r := func() (r *FuncResult) {
			defer func() {
				if x := recover(); x != nil {
					r = &FuncResult{Func: n, Unsupported: fmt.Sprint("engine error: ", x)}
				}
			}()
			return eng.verifyFunc(n, true)
		}()
		if r.Unsupported != "" {
			fmt.Printf("UNSUPPORTED %-70s %s\n", n, r.Unsupported)
			continue
		}
		var obs []*Obligation
		for _, ob := range r.Obs {
			switch ob.Kind {
			case "nil", "idx", "slice", "assert", "mapnil", "div", "panic":
				obs = append(obs, ob)
			}
		}
		solveAll(obs, SolveOpts{TimeoutMs: *timeout, Dir: dir, Single: true})
		fail := 0
		for _, ob := range obs {
			if ob.Status != "unsat" {
				fail++
				if *verbose {
					fmt.Printf("    %-8s %-60s %s %s\n", ob.Status, strings.TrimPrefix(ob.Name, n+"/"), ob.Pos, ob.Desc)
				}
			}
		}
		tot += len(obs)
		totFail += fail
		if fail == 0 {
			clean++
		}
		fmt.Printf("%-8s %-70s obligations=%d failed=%d\n", map[bool]string{true: "CLEAN", false: "OPEN"}[fail == 0], n, len(obs), fail)
	}
	fmt.Printf("functions=%d clean=%d obligations=%d failed=%d\n", len(names), clean, tot, totFail)
}
