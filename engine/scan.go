package main

// Zero-annotation landscape scan: safety obligations (nil/idx/slice/assert/mapnil/div/panic) of
// every function of the given packages, without contracts.  Used to decide which functions can
// be put under `safe` contracts; its output is informational and never evidence.

import (
	"flag"
	"fmt"
	"os"
	"sort"
	"strings"
)

func cmdScan(args []string) {
	fs := flag.NewFlagSet("scan", flag.ExitOnError)
	repo := fs.String("repo", "/repo", "repository")
	pkgs := fs.String("pkgs", "", "comma separated package paths")
	timeout := fs.Int("timeout", 3000, "per query timeout ms")
	verbose := fs.Bool("v", false, "list failing obligations")
	fs.Parse(args)
	eng, err := loadEngine(*repo, nil)
	if err != nil {
		fmt.Fprintln(os.Stderr, err)
		os.Exit(2)
	}
	want := map[string]bool{}
	for _, p := range strings.Split(*pkgs, ",") {
		want[p] = true
	}
	dir, _ := os.MkdirTemp("", "govcscan")
	defer os.RemoveAll(dir)
	var names []string
	for _, fn := range eng.allFuncs {
		if fn.Blocks == nil || fn.Pkg == nil || !want[fn.Pkg.Pkg.Path()] || fn.Synthetic != "" {
			continue
		}
		names = append(names, fn.String())
	}
	sort.Strings(names)
	tot, totFail, clean := 0, 0, 0
	for _, n := range names {
		r := func() (r *FuncResult) {
			defer func() {
				if x := recover(); x != nil {
					r = &FuncResult{Func: n, Unsupported: fmt.Sprint("engine error: ", x)}
				}
			}()
			return eng.verifyFunc(n, true)
		}()
		if r.Unsupported != "" {
			fmt.Printf("UNSUPPORTED %-70s %s\n", n, r.Unsupported)
			continue
		}
		var obs []*Obligation
		for _, ob := range r.Obs {
			switch ob.Kind {
			case "nil", "idx", "slice", "assert", "mapnil", "div", "panic":
				obs = append(obs, ob)
			}
		}
		solveAll(obs, SolveOpts{TimeoutMs: *timeout, Dir: dir, Single: true})
		fail := 0
		for _, ob := range obs {
			if ob.Status != "unsat" {
				fail++
				if *verbose {
					fmt.Printf("    %-8s %-60s %s %s\n", ob.Status, strings.TrimPrefix(ob.Name, n+"/"), ob.Pos, ob.Desc)
				}
			}
		}
		tot += len(obs)
		totFail += fail
		if fail == 0 {
			clean++
		}
		fmt.Printf("%-8s %-70s obligations=%d failed=%d\n", map[bool]string{true: "CLEAN", false: "OPEN"}[fail == 0], n, len(obs), fail)
	}
	fmt.Printf("functions=%d clean=%d obligations=%d failed=%d\n", len(names), clean, tot, totFail)
}

// sweep: for every function of the given packages that has no contract, generate the safety
// obligations of its own frame (index, slice, type assertion, division; callees inlined two blocks
// deep at most) and print the ones that are not discharged.  A discovery aid: what it prints are
// candidates to reproduce on the real code, nothing it prints or omits counts as evidence.
func cmdSweep(args []string) {
	fs := flag.NewFlagSet("sweep", flag.ExitOnError)
	pkgs := fs.String("pkgs", "", "comma separated package paths")
	kinds := fs.String("kinds", "idx,slice,assert,div", "obligation kinds")
	fs.Parse(args)
	eng, err := loadEngine("/repo", nil)
	if err != nil {
		fmt.Fprintln(os.Stderr, err)
		os.Exit(2)
	}
	want := map[string]bool{}
	for _, p := range strings.Split(*pkgs, ",") {
		want[p] = true
	}
	sk := map[string]bool{}
	for _, k := range strings.Split(*kinds, ",") {
		sk[k] = true
	}
	dir, _ := os.MkdirTemp("", "govcsweep")
	defer os.RemoveAll(dir)
	var names []string
	for _, fn := range eng.allFuncs {
		if fn.Blocks == nil || fn.Pkg == nil || !want[fn.Pkg.Pkg.Path()] || fn.Synthetic != "" {
			continue
		}
		if eng.contracts[fn.String()] != nil {
			continue
		}
		names = append(names, fn.String())
	}
	sort.Strings(names)
	var all []*Obligation
	for _, n := range names {
		eng.contracts[n] = &Contract{Func: n, Safe: true, SafeKinds: sk, InlineBlocks: 2, InlineDepth: 1, LoopInv: map[int][]*Clause{}, LoopDecr: map[int]*Clause{}, Witness: map[string]string{}}
		r := func() (r *FuncResult) {
			defer func() {
				if x := recover(); x != nil {
					r = &FuncResult{Func: n, Unsupported: fmt.Sprint("engine error: ", x)}
				}
			}()
			return eng.verifyFunc(n, false)
		}()
		if r.Unsupported != "" {
			fmt.Printf("UNSUPPORTED %-70s %s\n", n, r.Unsupported)
			continue
		}
		for _, ob := range r.Obs {
			if ob.Claimed && !ob.Cover {
				all = append(all, ob)
			}
		}
	}
	solveAll(all, SolveOpts{TimeoutMs: 5000, Dir: dir})
	bad := 0
	for _, ob := range all {
		if ob.Status != "unsat" {
			bad++
			fmt.Printf("OPEN %-8s %-90s %s  %s\n", ob.Status, ob.Name, ob.Pos, ob.Desc)
		}
	}
	fmt.Printf("sweep: %d functions without contract, %d obligations, %d open\n", len(names), len(all), bad)
}
