package main

// Access restriction for a package-level variable:
//
//   //@ readers[Cxx] <pkg.Global> <func>,<func>,...
//
// One obligation per clause: every instruction of the program that mentions the global (load,
// store, address taken, passed on) lies inside one of the listed functions (anonymous functions
// count with their enclosing function).  It is a frame condition decided on the SSA form of the
// whole program, with no solver involved beyond the trivial goal; it is what lets a contract
// say "this decision does not consult that table".

import (
	"go/types"
	"sort"
	"strconv"
	"strings"

	"golang.org/x/tools/go/ssa"
)

type ReadersClause struct {
	Tags   []string
	Global string
	Funcs  []string
}

func (e *Engine) readersObligations(prop string) []*Obligation {
	var out []*Obligation
	sc := newScript()
	rcount := map[string]int{}
	for _, rc := range e.readers {
		i := rcount[rc.Global] // ordinal among the clauses for the same variable (stable under additions elsewhere)
		rcount[rc.Global]++
		dot := strings.LastIndex(rc.Global, ".")
		if dot < 0 {
			continue
		}
		pkgName, gname := rc.Global[:dot], rc.Global[dot+1:]
		pkgPath := e.pkgByName(pkgName)
		var g *ssa.Global
		if p := e.prog.ImportedPackage(pkgPath); p != nil {
			g, _ = p.Members[gname].(*ssa.Global)
		}
		name := rc.Global + "/frame:readers#" + strconv.Itoa(i)
		if g == nil {
			ob := &Obligation{Name: name, Kind: "frame", Func: rc.Global, Goal: "false", Desc: "readers clause names an unknown global " + rc.Global, Claimed: true, Tags: rc.Tags}
			sc.oblige(ob)
			out = append(out, ob)
			continue
		}
		allowed := map[string]bool{}
		for _, f := range rc.Funcs {
			allowed[f] = true
		}
		bad := map[string]bool{}
		for _, fn := range e.allFuncs {
			if fn.Blocks == nil || !e.inModule(fn) {
				continue
			}
			top := fn
			for top.Parent() != nil {
				top = top.Parent()
			}
			if allowed[top.String()] {
				continue
			}
			for _, b := range fn.Blocks {
				for _, ins := range b.Instrs {
					for _, op := range ins.Operands(nil) {
						if *op == ssa.Value(g) {
							bad[top.String()] = true
						}
					}
				}
			}
		}
		goal := "true"
		desc := rc.Global + " is accessed only in " + strings.Join(rc.Funcs, ", ")
		if len(bad) > 0 {
			var bl []string
			for b := range bad {
				bl = append(bl, b)
			}
			sort.Strings(bl)
			goal = "false"
			desc += "; but also in " + strings.Join(bl, ", ")
		}
		ob := &Obligation{Name: name, Kind: "frame", Func: rc.Global, Goal: goal, Desc: desc, Claimed: true, Tags: rc.Tags}
		sc.oblige(ob)
		out = append(out, ob)
	}
	_ = prop
	return out
}

// Field write restriction:
//
//   //@ writers[Cxx] <pkg.Type.Field> <func>,<func>,...
//
// every store to that field of that struct type (and every use of the field's address other than
// a load) lies inside one of the listed functions.  Whole-struct copies are not writes of the
// field.  One obligation per clause (`<pkg.Type.Field>/frame:writers#<i>`).
type WritersClause struct {
	Tags  []string
	Field string
	Funcs []string
}

func (e *Engine) writersObligations(prop string) []*Obligation {
	var out []*Obligation
	sc := newScript()
	wcount := map[string]int{}
	for _, wc := range e.writers {
		i := wcount[wc.Field]
		wcount[wc.Field]++
		parts := strings.Split(wc.Field, ".")
		name := wc.Field + "/frame:writers#" + strconv.Itoa(i)
		fail := func(msg string) {
			ob := &Obligation{Name: name, Kind: "frame", Func: wc.Field, Goal: "false", Desc: msg, Claimed: true, Tags: wc.Tags}
			sc.oblige(ob)
			out = append(out, ob)
		}
		if len(parts) != 3 {
			fail("writers clause needs <pkg>.<Type>.<Field>")
			continue
		}
		t := e.typeByString(parts[0] + "." + parts[1])
		if t == nil {
			fail("writers clause names an unknown type " + parts[0] + "." + parts[1])
			continue
		}
		st, ok := t.Underlying().(*types.Struct)
		fidx := -1
		if ok {
			for k := 0; k < st.NumFields(); k++ {
				if st.Field(k).Name() == parts[2] {
					fidx = k
				}
			}
		}
		if fidx < 0 {
			fail("writers clause names an unknown field " + wc.Field)
			continue
		}
		allowed := map[string]bool{}
		for _, f := range wc.Funcs {
			allowed[f] = true
		}
		bad := map[string]bool{}
		for _, fn := range e.allFuncs {
			if fn.Blocks == nil || !e.inModule(fn) {
				continue
			}
			top := fn
			for top.Parent() != nil {
				top = top.Parent()
			}
			if allowed[top.String()] {
				continue
			}
			for _, b := range fn.Blocks {
				for _, ins := range b.Instrs {
					fa, ok := ins.(*ssa.FieldAddr)
					if !ok || fa.Field != fidx {
						continue
					}
					pt, ok := fa.X.Type().Underlying().(*types.Pointer)
					if !ok || !types.Identical(pt.Elem(), t) {
						continue
					}
					for _, r := range *fa.Referrers() {
						switch u := r.(type) {
						case *ssa.UnOp:
							// load
						case *ssa.DebugRef:
						case *ssa.Store:
							if u.Addr == ssa.Value(fa) {
								bad[top.String()+" (store)"] = true
							} else {
								bad[top.String()+" (address stored)"] = true
							}
						default:
							bad[top.String()+" (address used)"] = true
						}
					}
				}
			}
		}
		goal := "true"
		desc := wc.Field + " is written only in " + strings.Join(wc.Funcs, ", ")
		if len(bad) > 0 {
			var bl []string
			for b := range bad {
				bl = append(bl, b)
			}
			sort.Strings(bl)
			goal = "false"
			desc += "; but also in " + strings.Join(bl, ", ")
		}
		ob := &Obligation{Name: name, Kind: "frame", Func: wc.Field, Goal: goal, Desc: desc, Claimed: true, Tags: wc.Tags}
		sc.oblige(ob)
		out = append(out, ob)
	}
	_ = prop
	return out
}

// Call restriction at function granularity:
//
//   //@ callers[Cxx] <function> <func>,<func>,...
//
// every direct call of that function lies inside one of the listed functions (closures count with
// their enclosing function).  One obligation per clause (`<function>/frame:callers#<i>`).
type CallersClause struct {
	Tags   []string
	Callee string
	Funcs  []string
}

func (e *Engine) callersObligations(prop string) []*Obligation {
	var out []*Obligation
	sc := newScript()
	ccount := map[string]int{}
	for _, cc := range e.callers {
		i := ccount[cc.Callee]
		ccount[cc.Callee]++
		name := cc.Callee + "/frame:callers#" + strconv.Itoa(i)
		target := e.funcByName[cc.Callee]
		if target == nil {
			ob := &Obligation{Name: name, Kind: "frame", Func: cc.Callee, Goal: "false", Desc: "callers clause names an unknown function " + cc.Callee, Claimed: true, Tags: cc.Tags}
			sc.oblige(ob)
			out = append(out, ob)
			continue
		}
		allowed := map[string]bool{}
		for _, f := range cc.Funcs {
			allowed[f] = true
		}
		bad := map[string]bool{}
		for _, fn := range e.allFuncs {
			if fn.Blocks == nil || !e.inModule(fn) {
				continue
			}
			top := fn
			for top.Parent() != nil {
				top = top.Parent()
			}
			if allowed[top.String()] {
				continue
			}
			for _, b := range fn.Blocks {
				for _, ins := range b.Instrs {
					if ci, ok := ins.(ssa.CallInstruction); ok {
						if callee, isFn := ci.Common().Value.(*ssa.Function); isFn && callee == target {
							bad[top.String()] = true
						}
					}
					// a method value / function value taken: could be called from anywhere
					for _, op := range ins.Operands(nil) {
						if *op == ssa.Value(target) {
							if ci, ok := ins.(ssa.CallInstruction); !ok || ci.Common().Value != ssa.Value(target) {
								bad[top.String()+" (function value taken)"] = true
							}
						}
					}
				}
			}
		}
		goal := "true"
		desc := cc.Callee + " is called only from " + strings.Join(cc.Funcs, ", ")
		if len(bad) > 0 {
			var bl []string
			for b := range bad {
				bl = append(bl, b)
			}
			sort.Strings(bl)
			goal = "false"
			desc += "; but also from " + strings.Join(bl, ", ")
		}
		ob := &Obligation{Name: name, Kind: "frame", Func: cc.Callee, Goal: goal, Desc: desc, Claimed: true, Tags: cc.Tags}
		sc.oblige(ob)
		out = append(out, ob)
	}
	_ = prop
	return out
}

// Statelessness of a shared evaluator type:
//
//   //@ stateless[Cxx] <pkg/path.Type>
//
// the struct type has no fields: one instance of it serves every (also nested) evaluation, so
// nothing can be carried over from one evaluation to another.  (`<type>/frame:stateless#0`)
type StatelessClause struct {
	Tags []string
	Type string
}

func (e *Engine) statelessObligations(prop string) []*Obligation {
	var out []*Obligation
	sc := newScript()
	for _, c := range e.stateless {
		goal, desc := "true", c.Type+" has no fields (a shared evaluator instance carries no state)"
		t := e.typeByString(c.Type)
		if t == nil {
			goal, desc = "false", "stateless clause names an unknown type "+c.Type
		} else if st, ok := t.Underlying().(*types.Struct); !ok {
			goal, desc = "false", c.Type+" is not a struct type"
		} else if st.NumFields() > 0 {
			var fs []string
			for i := 0; i < st.NumFields(); i++ {
				fs = append(fs, st.Field(i).Name())
			}
			goal = "false"
			desc += "; but it has the fields " + strings.Join(fs, ", ")
		}
		ob := &Obligation{Name: c.Type + "/frame:stateless#0", Kind: "frame", Func: c.Type, Goal: goal, Desc: desc, Claimed: true, Tags: c.Tags}
		sc.oblige(ob)
		out = append(out, ob)
	}
	_ = prop
	return out
}
