package main

// Access restriction for a package-level variable:
//
//   //@ readers[Cxx] <pkg.Global> <func>,<func>,...
//
// One obligation per clause: every instruction of the program that mentions the global (load,
// store, address taken, passed on) lies inside one of the listed functions (anonymous functions
// count with their enclosing function).  It is a frame condition decided on the SSA form of the
// whole program, with no solver involved beyond the trivial goal; it is what lets a contract
// say "this decision does not consult that table".

import (
	"sort"
	"strconv"
	"strings"

	"golang.org/x/tools/go/ssa"
)

type ReadersClause struct {
	Tags   []string
	Global string
	Funcs  []string
}

func (e *Engine) readersObligations(prop string) []*Obligation {
	var out []*Obligation
	sc := newScript()
	for i, rc := range e.readers {
		dot := strings.LastIndex(rc.Global, ".")
		if dot < 0 {
			continue
		}
		pkgName, gname := rc.Global[:dot], rc.Global[dot+1:]
		pkgPath := e.pkgByName(pkgName)
		var g *ssa.Global
		if p := e.prog.ImportedPackage(pkgPath); p != nil {
			g, _ = p.Members[gname].(*ssa.Global)
		}
		name := rc.Global + "/frame:readers#" + strconv.Itoa(i)
		if g == nil {
			ob := &Obligation{Name: name, Kind: "frame", Func: rc.Global, Goal: "false", Desc: "readers clause names an unknown global " + rc.Global, Claimed: true, Tags: rc.Tags}
			sc.oblige(ob)
			out = append(out, ob)
			continue
		}
		allowed := map[string]bool{}
		for _, f := range rc.Funcs {
			allowed[f] = true
		}
		bad := map[string]bool{}
		for _, fn := range e.allFuncs {
			if fn.Blocks == nil || !e.inModule(fn) {
				continue
			}
			top := fn
			for top.Parent() != nil {
				top = top.Parent()
			}
			if allowed[top.String()] {
				continue
			}
			for _, b := range fn.Blocks {
				for _, ins := range b.Instrs {
					for _, op := range ins.Operands(nil) {
						if *op == ssa.Value(g) {
							bad[top.String()] = true
						}
					}
				}
			}
		}
		goal := "true"
		desc := rc.Global + " is accessed only in " + strings.Join(rc.Funcs, ", ")
		if len(bad) > 0 {
			var bl []string
			for b := range bad {
				bl = append(bl, b)
			}
			sort.Strings(bl)
			goal = "false"
			desc += "; but also in " + strings.Join(bl, ", ")
		}
		ob := &Obligation{Name: name, Kind: "frame", Func: rc.Global, Goal: goal, Desc: desc, Claimed: true, Tags: rc.Tags}
		sc.oblige(ob)
		out = append(out, ob)
	}
	_ = prop
	return out
}
