package main

import (
	"fmt"
	"go/types"
	"sort"

	"golang.org/x/tools/go/ssa"
)

// all `range` loops over maps in module functions
type mapRange struct {
	fn  *ssa.Function
	rng *ssa.Range
	pos string
}

func (e *Engine) mapRanges() []mapRange {
	var out []mapRange
	for _, fn := range e.allFuncs {
		if !e.inModule(fn) {
			continue
		}
		for _, b := range fn.Blocks {
			for _, ins := range b.Instrs {
				if r, ok := ins.(*ssa.Range); ok {
					if _, isMap := r.X.Type().Underlying().(*types.Map); isMap {
						p := e.fset.Position(r.Pos())
						out = append(out, mapRange{fn, r, fmt.Sprintf("%s:%d", p.Filename, p.Line)})
					}
				}
			}
		}
	}
	sort.Slice(out, func(i, j int) bool { return out[i].pos < out[j].pos })
	return out
}
