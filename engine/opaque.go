package main

// Abstract predicates: a spec function declared `opaque` is expanded only when the function
// under verification lives in the spec's own package.  Elsewhere it is an uninterpreted
// predicate of its arguments and of the current versions of the heap locations its body reads
// (its footprint).  Everything proved with the uninterpreted symbol holds for every
// interpretation, in particular for the real body.

import (
	"fmt"
	"sort"
	"strings"
)

var currentTopPkg string

type footprint struct {
	locs  []string
	sorts []string
}

func (env *SpecEnv) opaqueApp(sf *SpecFunc) Val {
	f := env.f
	vc := f.vc
	if vc.footprints == nil {
		vc.footprints = map[string]*footprint{}
	}
	fp := vc.footprints[sf.Name]
	if fp == nil {
		// evaluate the body once, recording the locations it reads; the term is discarded
		rec := map[string]string{}
		savedRec := vc.he.record
		vc.he.record = rec
		vc.eng.transparent[sf.Name] = true
		func() {
			defer func() {
				vc.he.record = savedRec
				delete(vc.eng.transparent, sf.Name)
			}()
			probe := &SpecEnv{f: f, vars: env.vars, st: env.st.clone(), old: env.old, result: env.result, pkg: sf.Pkg, depth: env.depth + 1}
			vc.pure++
			defer func() { vc.pure-- }()
			probe.eval(sf.Body)
		}()
		fp = &footprint{}
		for l := range rec {
			if l == "ALLOC" {
				continue
			}
			fp.locs = append(fp.locs, l)
		}
		sort.Strings(fp.locs)
		for _, l := range fp.locs {
			fp.sorts = append(fp.sorts, rec[l])
		}
		vc.footprints[sf.Name] = fp
	}
	var args, sorts []string
	for _, p := range sf.Params {
		v := env.rv(env.vars[p])
		args = append(args, v.t)
		sorts = append(sorts, vc.te.sortOf(v.typ))
	}
	for i, l := range fp.locs {
		args = append(args, vc.he.get(env.st, l, fp.sorts[i]))
		sorts = append(sorts, fp.sorts[i])
	}
	fn := sym("opaque:" + sf.Name)
	vc.sc.decl(fn, fmt.Sprintf("(declare-fun %s (%s) Bool)", fn, strings.Join(sorts, " ")))
	usedAxioms["abstract predicate "+sf.Name+" (opaque outside package "+sf.Pkg+")"] = true
	if len(args) == 0 {
		return Val{t: fn, typ: boolType}
	}
	return Val{t: app(fn, args...), typ: boolType}
}

var boolType = boolTypeOf()
