package main

// Frontier-preserving loop havoc.
//
// A store whose address is derived from an Alloc instruction that lies inside the loop body writes
// an object that did not exist when the loop was entered (every execution of an Alloc yields a
// reference above the allocation frontier).  If *all* writes of a location inside a loop are of
// that kind - no other store, no map update, no call whose mod-set contains the location - then
// the loop cannot change the location at any reference that existed on entry.  For such locations
// the havoc at the loop head keeps the values at references <= ALLOC(entry).  (Typical case: the
// per-iteration copy `v := xs[i]` of a struct element into a local.)

import (
	"go/types"

	"golang.org/x/tools/go/ssa"
)

func (vc *VC) loopFreshOnly(li *loopInfo) map[string]bool {
	fresh := map[string]bool{}
	other := map[string]bool{}
	for b := range li.body {
		for _, ins := range b.Instrs {
			switch x := ins.(type) {
			case *ssa.Store:
				var m ModSet
				addStoreLocs(&m, x.Addr)
				if m.Top {
					return nil
				}
				a := rootAllocOfAddr(x.Addr)
				inBody := a != nil && li.body[a.Block()]
				for l := range m.Locs {
					if inBody {
						fresh[l] = true
					} else {
						other[l] = true
					}
				}
			case *ssa.MapUpdate:
				l, _ := locMapDom(x.Map.Type())
				other[l] = true
				l, _ = locMapVal(x.Map.Type())
				other[l] = true
			case ssa.CallInstruction:
				m := vc.callMod(x.Common())
				if m.Top {
					return nil
				}
				// result = append(result, ..) on a slice that is nil when the loop is entered: every array
				// it writes is allocated inside the loop
				if b, ok := x.Common().Value.(*ssa.Builtin); ok && b.Name() == "append" && grownInLoopFromNil(x.Common().Args[0], li, map[ssa.Value]bool{}) {
					for l := range m.Locs {
						fresh[l] = true
					}
					continue
				}
				// what a statically known callee changes only in objects it allocates itself is, seen
				// from the loop, a write above the frontier of loop entry
				var calleeFresh map[string]bool
				if fn := x.Common().StaticCallee(); fn != nil && !x.Common().IsInvoke() && vc.eng.inModule(fn) && fn.Blocks != nil {
					if _, isClosure := x.Common().Value.(*ssa.MakeClosure); !isClosure {
						calleeFresh = vc.eng.freshOnlyOf(fn, vc.eng.modOf(fn))
					}
				}
				for l := range m.Locs {
					if calleeFresh[l] {
						fresh[l] = true
					} else {
						other[l] = true
					}
				}
			}
		}
	}
	for l := range other {
		delete(fresh, l)
	}
	return fresh
}

// v can only be nil or an array allocated by an append inside the loop: nil, an append of such a
// value inside the loop, or a header phi whose entry values are nil and whose other edges are such
func grownInLoopFromNil(v ssa.Value, li *loopInfo, seen map[ssa.Value]bool) bool {
	if seen[v] {
		return true
	}
	seen[v] = true
	switch x := v.(type) {
	case *ssa.Const:
		return x.IsNil()
	case *ssa.Phi:
		for _, e := range x.Edges {
			if !grownInLoopFromNil(e, li, seen) {
				return false
			}
		}
		return true
	case *ssa.Call:
		if b, ok := x.Call.Value.(*ssa.Builtin); ok && b.Name() == "append" && li.body[x.Block()] {
			return grownInLoopFromNil(x.Call.Args[0], li, seen)
		}
	}
	return false
}

// root Alloc of an address expression: through field selections and array (not slice) indexing
func rootAllocOfAddr(v ssa.Value) *ssa.Alloc {
	for {
		switch x := v.(type) {
		case *ssa.Alloc:
			return x
		case *ssa.FieldAddr:
			v = x.X
		case *ssa.IndexAddr:
			if _, isSlice := x.X.Type().Underlying().(*types.Slice); isSlice {
				return nil // element of a slice: not a local object
			}
			v = x.X
		default:
			return nil
		}
	}
}
