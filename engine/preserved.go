package main

// Encapsulation rule for abstract object invariants:
//
//   //@ preserved <pred> <param type> owners <pkg>,<pkg>,...
//
// says: the predicate <pred>(o) over objects o of that type depends only on state that code
// outside the owner packages cannot write directly, so such code (a callee without contract, a
// loop body, an interface call) preserves it.  The engine (1) uses the rule when it abstracts
// code that lives outside the owner packages by a havoc, and (2) emits `encap` obligations that
// justify it: every function of the owner packages either has a contract (whose `ensures` must
// then re-establish the predicate where needed) or writes nothing in the predicate's footprint.
// Whole-struct copies of the object made outside the owners are NOT covered (named assumption).

import (
	"go/token"
	"go/types"
	"strings"

	"golang.org/x/tools/go/ssa"
)

type Preserved struct {
	Pred   string
	Type   string
	Owners []string
}

func (e *Engine) isOwner(p Preserved, pkg string) bool {
	for _, o := range p.Owners {
		if o == pkg {
			return true
		}
	}
	return false
}

func pkgOfFn(fn *ssa.Function) string {
	for fn != nil {
		if fn.Pkg != nil {
			return fn.Pkg.Pkg.Path()
		}
		if fn.Parent() == nil {
			if o := fn.Object(); o != nil && o.Pkg() != nil {
				return o.Pkg().Path()
			}
			return ""
		}
		fn = fn.Parent()
	}
	return ""
}

// objects of the predicate's type known in this frame
func (f *Frame) preservedCandidates(p Preserved) []Val {
	var out []Val
	seen := map[string]bool{}
	add := func(v Val) {
		if v.typ == nil || v.addr != nil || v.t == "" || seen[v.t] {
			return
		}
		pt, ok := v.typ.Underlying().(*types.Pointer)
		if !ok || typeKey(pt.Elem()) != p.Type {
			return
		}
		seen[v.t] = true
		out = append(out, v)
	}
	for _, v := range f.params {
		add(v)
	}
	if f.vc.topFrame != nil {
		for _, v := range f.vc.topFrame.params {
			add(v)
		}
	}
	// objects reached through one field of a parameter (e.g. m.parser), read in the current state
	scan := func(params []Val) {
		for _, pv := range params {
			if pv.typ == nil || pv.addr != nil || pv.t == "" {
				continue
			}
			pt, ok := pv.typ.Underlying().(*types.Pointer)
			if !ok {
				continue
			}
			st, ok := pt.Elem().Underlying().(*types.Struct)
			if !ok {
				continue
			}
			for i := 0; i < st.NumFields(); i++ {
				ft, ok := st.Field(i).Type().Underlying().(*types.Pointer)
				if !ok || typeKey(ft.Elem()) != p.Type {
					continue
				}
				l, li := locField(pt.Elem(), i)
				add(Val{t: f.vc.sc.define("fieldobj", "Int", f.readAddr(&Addr{kind: "F", loc: l, li: li, ref: pv.t})), typ: st.Field(i).Type()})
			}
		}
	}
	scan(f.params)
	if f.vc.topFrame != nil && f.vc.topFrame != f {
		scan(f.vc.topFrame.params)
	}
	return out
}

// havoc st by mod on behalf of code living in package codePkg, keeping preserved predicates
func (f *Frame) havocKeeping(st *State, mod ModSet, codePkg string) {
	vc := f.vc
	type keep struct {
		pre string
		p   Preserved
		v   Val
	}
	var keeps []keep
	if vc.pure == 0 {
		for _, p := range vc.eng.preserved {
			if vc.eng.isOwner(p, codePkg) || vc.eng.isOwner(p, currentTopPkg) {
				continue
			}
			sf := vc.eng.specFuncs[p.Pred]
			if sf == nil || len(sf.Params) != 1 {
				continue
			}
			for _, v := range f.preservedCandidates(p) {
				env := &SpecEnv{f: f, vars: map[string]Val{sf.Params[0]: v}, st: st, old: st, pkg: sf.Pkg}
				pre := env.opaqueOrBody(sf)
				keeps = append(keeps, keep{pre, p, v})
			}
		}
	}
	vc.he.havoc(st, mod)
	for _, k := range keeps {
		sf := vc.eng.specFuncs[k.p.Pred]
		env := &SpecEnv{f: f, vars: map[string]Val{sf.Params[0]: k.v}, st: st, old: st, pkg: sf.Pkg}
		post := env.opaqueOrBody(sf)
		f.assume(implies(k.pre, post))
		usedAxioms["encapsulation: code outside "+strings.Join(k.p.Owners, ",")+" preserves "+k.p.Pred+" (justified by encap obligations; struct copies not covered)"] = true
	}
}

func (env *SpecEnv) opaqueOrBody(sf *SpecFunc) string {
	if sf.Opaque && currentTopPkg != sf.Pkg {
		return env.opaqueApp(sf).t
	}
	return env.evalBool(sf.Body)
}

// encap obligations: functions of the owner packages without contract must not write the footprint
func (e *Engine) encapObligations(prop string) []*Obligation {
	var out []*Obligation
	for _, p := range e.preserved {
		sf := e.specFuncs[p.Pred]
		if sf == nil {
			continue
		}
		fpLocs := e.predicateFootprint(p, sf)
		sc := newScript()
		for _, fn := range e.allFuncs {
			if fn.Blocks == nil || fn.Synthetic != "" || !e.isOwner(p, pkgOfFn(fn)) {
				continue
			}
			if allowed, ok := e.internal[fn.String()]; ok {
				// callable only from the listed packages: checked on the call graph
				var bad []string
				for _, g := range e.allFuncs {
					if !e.inModule(g) || g.Blocks == nil {
						continue
					}
					gp := pkgOfFn(g)
					okPkg := false
					for _, a := range allowed {
						if a == gp {
							okPkg = true
						}
					}
					if okPkg {
						continue
					}
					for _, b := range g.Blocks {
						for _, ins := range b.Instrs {
							if c, isCall := ins.(ssa.CallInstruction); isCall {
								if callee, isFn := c.Common().Value.(*ssa.Function); isFn && callee == fn {
									bad = append(bad, g.String())
								}
							}
						}
					}
				}
				goal := "true"
				desc := "declared internal: called only from " + strings.Join(allowed, ", ")
				if len(bad) > 0 {
					goal = "false"
					desc += "; but also called from " + strings.Join(bad, ", ")
				}
				ob := &Obligation{Name: fn.String() + "/encap:internal#0", Kind: "encap", Func: fn.String(), Goal: goal, Desc: desc, Claimed: true}
				sc.oblige(ob)
				out = append(out, ob)
				continue
			}
			if ct := e.contracts[fn.String()]; ct != nil {
				continue // verified against its own contract
			}
			if fn.Name() == "init" || strings.HasPrefix(fn.Name(), "init#") {
				continue
			}
			// only functions that code outside the owner packages can call matter: an unexported
			// function is reachable only through exported ones, whose mod-sets include its writes
			if !token.IsExported(fn.Name()) || fn.Parent() != nil {
				continue
			}
			m := e.modOf(fn)
			var hit []string
			if m.Top {
				hit = append(hit, "everything (dynamic call)")
			}
			for l := range m.Locs {
				if fpLocs[l] {
					hit = append(hit, l)
				}
			}
			goal := "true"
			desc := "function of an owner package without contract writes nothing that " + p.Pred + " depends on"
			if len(hit) > 0 {
				goal = "false"
				desc += "; but it may write " + strings.Join(hit, ", ")
			}
			ob := &Obligation{Name: fn.String() + "/encap:" + p.Pred + "#0", Kind: "encap", Func: fn.String(), Goal: goal, Desc: desc, Claimed: true}
			sc.oblige(ob)
			out = append(out, ob)
		}
	}
	return out
}

// footprint of a predicate: locations its (transitively expanded) body reads, found by probing
// inside a throw-away VC of a function that has a parameter of the right type
func (e *Engine) predicateFootprint(p Preserved, sf *SpecFunc) map[string]bool {
	if fp, ok := e.fpCache[p.Pred]; ok {
		return fp
	}
	fp := map[string]bool{}
	var host *ssa.Function
	for _, fn := range e.allFuncs {
		if fn.Blocks == nil || !e.inModule(fn) || e.isOwner(p, pkgOfFn(fn)) {
			continue
		}
		for _, prm := range fn.Params {
			if pt, ok := prm.Type().Underlying().(*types.Pointer); ok && typeKey(pt.Elem()) == p.Type {
				host = fn
			}
		}
		if host != nil {
			break
		}
	}
	if host != nil {
		sc := newScript()
		te := newTypeEnv(sc)
		he := newHeapEnv(sc, te)
		vc := &VC{eng: e, sc: sc, te: te, he: he, top: host, counters: map[string]int{}, grefs: map[string]int{}}
		saved := currentTopPkg
		currentTopPkg = pkgOfFn(host)
		st := he.entryState()
		var params []Val
		var obj Val
		for _, prm := range host.Params {
			v := vc.paramVal(prm.Name(), prm.Type())
			params = append(params, v)
			if pt, ok := prm.Type().Underlying().(*types.Pointer); ok && typeKey(pt.Elem()) == p.Type {
				obj = v
			}
		}
		f := vc.newFrame(host, params, st, "true", true, "")
		vc.topFrame = f
		f.curB = host.Blocks[0]
		f.reach[f.curB] = "true"
		f.cur = st
		vc.entry = st.clone()
		func() {
			defer func() { recover() }()
			env := &SpecEnv{f: f, vars: map[string]Val{sf.Params[0]: obj}, st: st, old: st, pkg: sf.Pkg}
			env.opaqueApp(sf)
			if got := vc.footprints[sf.Name]; got != nil {
				for _, l := range got.locs {
					fp[l] = true
				}
			}
		}()
		currentTopPkg = saved
	}
	if e.fpCache == nil {
		e.fpCache = map[string]map[string]bool{}
	}
	e.fpCache[p.Pred] = fp
	return fp
}
