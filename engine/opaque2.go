package main

import "go/types"

func boolTypeOf() types.Type { return types.Typ[types.Bool] }
