package main

// Witness replay: a contract may carry `witness <obligation-suffix> "<ruby source>"`,
// a complete input that drives the real binary to the failing point.  Witnesses are
// replay aids only; they never count as evidence of a proof.

import (
	"encoding/json"
	"fmt"
	"os"
	"os/exec"
	"path/filepath"
	"strings"
	"time"
)

func (e *Engine) replay(vc *VC, ob *Obligation, o SolveOpts, outDir string) *ReplayResult {
	rr := e.replayModel(vc, ob, o, outDir)
	if rr.Confirmed {
		return rr
	}
	ct := e.contracts[ob.Func]
	if ct == nil {
		return rr
	}
	suffix := strings.TrimPrefix(ob.Name, ob.Func+"/")
	if code, ok := ct.Witness[suffix+"|go"]; ok {
		return e.replayGoWitness(rr, ct, ob, code, o, outDir)
	}
	src, ok := ct.Witness[suffix]
	if !ok {
		return rr
	}
	var args []string
	if a := ct.Witness[suffix+"|args"]; a != "" {
		args = strings.Fields(a)
	}
	if pre, ok := ct.Witness[suffix+"|preload"]; ok {
		// a preloaded file: written as pre.rb and listed in .ti-loader.json
		o.preload = pre
	}
	if nstr, ok := ct.Witness[suffix+"|expect-varies"]; ok {
		// nondeterminism: the same input must give the same output; run it several times
		n := 8
		fmt.Sscanf(nstr, "%d", &n)
		seen := map[string]bool{}
		var first string
		for i := 0; i < n; i++ {
			_, out := e.runWitness(src, o, args)
			if i == 0 {
				first = out
			}
			seen[out] = true
		}
		rr.Witness = src
		if len(first) > 1500 {
			first = first[:1500]
		}
		rr.Output = first
		rr.Confirmed = len(seen) > 1
		rr.Outcome = fmt.Sprintf("witness: %d runs of the rebuilt binary on the same input gave %d distinct outputs", n, len(seen))
		return rr
	}
	outcome, out := e.runWitness(src, o, args)
	rr.Witness = src
	rr.Output = out
	if len(rr.Output) > 3000 {
		rr.Output = rr.Output[:3000]
	}
	rr.Outcome = "witness: " + outcome
	if exp, ok := ct.Witness[suffix+"|expect"]; ok {
		// the witness demonstrates the violation when the real binary prints the expected text
		rr.Confirmed = strings.Contains(out, exp)
		rr.Outcome = fmt.Sprintf("witness: %s, output contains %q: %v", outcome, exp, rr.Confirmed)
		return rr
	}
	if exp, ok := ct.Witness[suffix+"|expect-not"]; ok {
		rr.Confirmed = outcome == "exit" && !strings.Contains(out, exp)
		rr.Outcome = fmt.Sprintf("witness: %s, output lacks %q: %v", outcome, exp, rr.Confirmed)
		return rr
	}
	switch ob.Kind {
	case "dec", "eos":
		rr.Confirmed = outcome == "timeout"
	case "nil", "idx", "slice", "assert", "div", "mapnil", "panic":
		rr.Confirmed = outcome == "panic"
	case "site", "pre":
		// an assertion about a call's arguments: the witness shows the bad call crashing or hanging
		rr.Confirmed = outcome == "panic" || outcome == "timeout"
	}
	return rr
}

// build ti from the (overlaid) tree and run it on src in a scratch directory
func (e *Engine) runWitness(src string, o SolveOpts, args []string) (string, string) {
	bin, err := e.buildTi(o)
	if err != nil {
		return "build-failed", err.Error()
	}
	work := filepath.Join(o.Dir, "witness")
	os.MkdirAll(work, 0o755)
	exec.Command("cp", "-r", filepath.Join(e.repo, ".ti-config"), work).Run()
	os.WriteFile(filepath.Join(work, "in.rb"), []byte(src), 0o644)
	if o.preload != "" {
		os.WriteFile(filepath.Join(work, "pre.rb"), []byte(o.preload), 0o644)
		os.WriteFile(filepath.Join(work, ".ti-loader.json"), []byte(`{"preload": ["pre.rb"]}`), 0o644)
	} else {
		os.Remove(filepath.Join(work, ".ti-loader.json"))
	}
	cmd := exec.Command(bin, append([]string{"in.rb"}, args...)...)
	cmd.Dir = work
	done := make(chan struct{})
	var out []byte
	go func() { out, _ = cmd.CombinedOutput(); close(done) }()
	select {
	case <-done:
	case <-time.After(20 * time.Second):
		cmd.Process.Kill()
		<-done
		return "timeout", "killed after 20 s"
	}
	so := string(out)
	switch {
	case strings.Contains(so, "panic:") || strings.Contains(so, "goroutine "):
		return "panic", so
	case strings.TrimSpace(so) == "timeout" || strings.HasSuffix(strings.TrimSpace(so), "\ntimeout"):
		return "timeout", so
	}
	return "exit", so
}

func (e *Engine) buildTi(o SolveOpts) (string, error) {
	if e.tiBin != "" {
		return e.tiBin, nil
	}
	bin := filepath.Join(o.Dir, "ti-under-test")
	args := []string{"build", "-o", bin}
	if len(e.overlay) > 0 {
		ov := map[string]map[string]string{"Replace": {}}
		for k, v := range e.overlay {
			p := filepath.Join(o.Dir, "bov_"+strings.ReplaceAll(strings.TrimPrefix(k, e.repo+"/"), "/", "_"))
			os.WriteFile(p, v, 0o644)
			ov["Replace"][k] = p
		}
		ovj, _ := json.Marshal(ov)
		ovPath := filepath.Join(o.Dir, "build_overlay.json")
		os.WriteFile(ovPath, ovj, 0o644)
		args = append(args, "-overlay", ovPath)
	}
	args = append(args, ".")
	cmd := exec.Command("go", args...)
	cmd.Dir = e.repo
	out, err := cmd.CombinedOutput()
	if err != nil {
		return "", fmt.Errorf("go build: %v: %s", err, out)
	}
	e.tiBin = bin
	return bin, nil
}

// in-package Go witness: the statements run inside a generated test of the contract's package
func (e *Engine) replayGoWitness(rr *ReplayResult, ct *Contract, ob *Obligation, code string, o SolveOpts, outDir string) *ReplayResult {
	pkgRel := strings.TrimPrefix(strings.TrimPrefix(ct.Pkg, "ti"), "/")
	pkgDir := filepath.Join(e.repo, pkgRel)
	pkgName := "main"
	if p := e.prog.ImportedPackage(ct.Pkg); p != nil {
		pkgName = p.Pkg.Name()
	}
	// module packages the statements mention by name are imported
	extra := ""
	for name, path := range e.pkgNames {
		if path != ct.Pkg && isModPath(path) && strings.Contains(code, name+".") {
			extra += fmt.Sprintf("\t%q\n", path)
		}
	}
	src := fmt.Sprintf("package %s\n\n// generated by /verif (govc): witness test for obligation %s\n\nimport (\n\t\"fmt\"\n\t\"testing\"\n"+extra+")\n\nfunc TestVerifReplay(t *testing.T) {\n\tviolated := false\n\t%s\n\tif violated {\n\t\tfmt.Println(\"VERIF-REPLAY outcome: violated\")\n\t} else {\n\t\tfmt.Println(\"VERIF-REPLAY outcome: holds\")\n\t}\n}\n", pkgName, ob.Name, code)
	tmp := filepath.Join(o.Dir, "zz_verif_witness_test.go")
	os.WriteFile(tmp, []byte(src), 0o644)
	ov := map[string]map[string]string{"Replace": {filepath.Join(pkgDir, "zz_verif_witness_test.go"): tmp}}
	for k, v := range e.overlay {
		p := filepath.Join(o.Dir, "wov_"+strings.ReplaceAll(strings.TrimPrefix(k, e.repo+"/"), "/", "_"))
		os.WriteFile(p, v, 0o644)
		ov["Replace"][k] = p
	}
	ovj, _ := json.Marshal(ov)
	ovPath := filepath.Join(o.Dir, "witness_overlay.json")
	os.WriteFile(ovPath, ovj, 0o644)
	cmd := exec.Command("go", "test", "-overlay", ovPath, "-vet=off", "-v", "-count=1", "-timeout", "60s", "-run", "^TestVerifReplay$", "./"+pkgRel)
	cmd.Dir = e.repo
	out, _ := cmd.CombinedOutput()
	so := string(out)
	rr.Witness = code
	rr.Output = so
	if len(rr.Output) > 3000 {
		rr.Output = rr.Output[:3000]
	}
	switch {
	case strings.Contains(so, "VERIF-REPLAY outcome: violated"):
		rr.Confirmed = true
		rr.Outcome = "witness test on the real code: violated"
	case strings.Contains(so, "VERIF-REPLAY outcome: holds"):
		rr.Outcome = "witness test on the real code: holds"
	default:
		rr.Outcome = "witness test did not run"
	}
	if outDir != "" {
		os.MkdirAll(outDir, 0o755)
		rr.TestFile = filepath.Join(outDir, safeName(ob.Name)+"_witness_test.go.txt")
		os.WriteFile(rr.TestFile, []byte(src), 0o644)
	}
	return rr
}
