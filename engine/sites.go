package main

// Site obligations: assertions attached to every direct write to a given global map
// (`mapwrite`) or every direct call of a given callee (`callsite`) inside the function under
// contract.  They state *which* keys / arguments this function itself may use - a frame-like
// property that a pre/post pair cannot express when the function also calls the evaluator
// (which legitimately touches the same tables for other classes).

import (
	"fmt"
	"go/ast"
	"go/token"
	"regexp"
	"strings"

	"golang.org/x/tools/go/ssa"
)

type SiteClause struct {
	Kind   string // mapwrite | callsite
	Target string
	Expr   ast.Expr
	Tags   []string
	Text   string
}

// environment at an arbitrary program point: parameters, address-taken locals, and every
// named phi whose block dominates the current block (the innermost definition wins)
func (f *Frame) siteEnv() *SpecEnv {
	env := f.specEnv(f.cur, nil, nil)
	// an address-taken local is in scope only below its allocation (a range variable of an
	// earlier loop must not leak into later code)
	for _, b := range f.fn.Blocks {
		for _, ins := range b.Instrs {
			if a, ok := ins.(*ssa.Alloc); ok && a.Comment != "" && !f.paramNames()[a.Comment] {
				if b != f.curB && !b.Dominates(f.curB) {
					delete(env.vars, a.Comment)
				}
			}
		}
	}
	for _, b := range rpo(f.fn) {
		if b != f.curB && !b.Dominates(f.curB) {
			continue
		}
		for _, ins := range b.Instrs {
			p, ok := ins.(*ssa.Phi)
			if !ok {
				break
			}
			if v, done := f.vals[p]; done && p.Comment != "" {
				if _, isParam := f.paramNames()[p.Comment]; !isParam {
					env.vars[p.Comment] = v
				}
			}
		}
	}
	// any other local by its source name: the most recent dominating DebugRef (GlobalDebug mode)
	fromDebug := map[string]bool{}
	for _, b := range rpo(f.fn) {
		if b != f.curB && !b.Dominates(f.curB) {
			continue
		}
		for _, ins := range b.Instrs {
			d, ok := ins.(*ssa.DebugRef)
			if !ok {
				continue
			}
			id, ok := d.Expr.(*ast.Ident)
			if !ok {
				continue
			}
			v, done := f.vals[d.X]
			if !done {
				continue
			}
			if _, taken := env.vars[id.Name]; taken && !fromDebug[id.Name] {
				continue
			}
			env.vars[id.Name] = v
			fromDebug[id.Name] = true
		}
	}
	return env
}

func (f *Frame) paramNames() map[string]bool {
	m := map[string]bool{}
	for _, p := range f.fn.Params {
		m[p.Name()] = true
	}
	return m
}

func globalOf(v ssa.Value) string {
	// map value loaded from a package-level variable
	if u, ok := v.(*ssa.UnOp); ok && u.Op == token.MUL {
		if g, ok := u.X.(*ssa.Global); ok {
			return g.Pkg.Pkg.Name() + "." + g.Name()
		}
	}
	return ""
}

func (f *Frame) siteMapWrite(x *ssa.MapUpdate) {
	vc := f.vc
	if !f.top || vc.contract == nil || vc.pure > 0 {
		return
	}
	g := globalOf(x.Map)
	for i, sc := range vc.contract.Sites {
		if sc.Kind != "mapwrite" || sc.Target != g {
			continue
		}
		env := f.siteEnv()
		env.vars["key"] = f.val(x.Key)
		env.vars["value"] = f.val(x.Value)
		goal, inScope := evalSiteClause(env, sc.Expr)
		if !inScope {
			continue // the clause names a local that is not in scope at this write
		}
		f.oblige(fmt.Sprintf("site:mapwrite.%d", i), goal, "every write to "+g+" in this function: "+sc.Text, x.Pos(), sc.Tags, true)
	}
}

func (f *Frame) siteCall(instr ssa.Instruction, c *ssa.CallCommon) {
	vc := f.vc
	if !f.top || vc.contract == nil || vc.pure > 0 || len(vc.contract.Sites) == 0 {
		return
	}
	name := calleeName(c)
	for i, sc := range vc.contract.Sites {
		if sc.Kind != "callsite" {
			continue
		}
		if !siteTargetMatches(name, sc.Target) {
			continue
		}
		if vc.siteSeen == nil {
			vc.siteSeen = map[int]bool{}
		}
		vc.siteSeen[i] = true
		env := f.siteEnv()
		var names []string
		if c.IsInvoke() {
			sig := c.Signature()
			for j := 0; j < sig.Params().Len(); j++ {
				names = append(names, sig.Params().At(j).Name())
			}
		} else if callee, ok := c.Value.(*ssa.Function); ok {
			for _, p := range callee.Params {
				names = append(names, p.Name())
			}
		}
		for j, a := range c.Args {
			env.vars[fmt.Sprintf("a_%d", j)] = f.val(a) // positional name (builtins have no parameter names)
			if j < len(names) && names[j] != "" && names[j] != "_" {
				env.vars["a_"+names[j]] = f.val(a)
			}
		}
		goal, inScope := evalSiteClause(env, sc.Expr)
		if !inScope {
			// a local the clause names is not in scope at this call: the clause does not speak about
			// this site (it must apply somewhere: see siteClauseCoverage)
			continue
		}
		if vc.siteApplied == nil {
			vc.siteApplied = map[int]int{}
		}
		vc.siteApplied[i]++
		f.oblige(fmt.Sprintf("site:call.%d", i), goal, "every call of "+sc.Target+" in this function: "+sc.Text, instr.Pos(), sc.Tags, true)
	}
}

// evaluate a site clause; ok=false when it names a local that is not in scope here
func evalSiteClause(env *SpecEnv, e ast.Expr) (goal string, ok bool) {
	defer func() {
		if r := recover(); r != nil {
			if ue, isU := r.(unsupportedErr); isU && strings.Contains(ue.msg, "unknown identifier") {
				goal, ok = "", false
				return
			}
			panic(r)
		}
	}()
	return env.evalBool(e), true
}

// every callsite clause must have applied at one site at least; a clause that applies nowhere
// (misspelt local, callee no longer called) is a failed obligation, not a silent pass
func (vc *VC) siteClauseCoverage(fn *ssa.Function) {
	if vc.contract == nil {
		return
	}
	for i, sc := range vc.contract.Sites {
		if sc.Kind != "callsite" || vc.siteApplied[i] > 0 {
			continue
		}
		if !vc.siteSeen[i] {
			continue // no call of that callee at all: nothing to say (as before)
		}
		ob := &Obligation{Name: fmt.Sprintf("%s/site:call.%d#scope", fn.String(), i), Kind: "site", Func: fn.String(), Goal: "false",
			Desc: "the clause names locals that are in scope at none of the calls of " + sc.Target + ": " + sc.Text, Claimed: true, Tags: sc.Tags}
		vc.sc.oblige(ob)
	}
}

// callee name matches the clause target: exact, by short name, or by prefix when the target ends in *
func siteTargetMatches(name, target string) bool {
	if strings.HasSuffix(target, "*") {
		pre := strings.TrimSuffix(target, "*")
		if strings.HasPrefix(name, pre) {
			return true
		}
		if i := strings.LastIndex(name, "/"); i >= 0 && strings.HasPrefix(name[i+1:], pre) {
			return true
		}
		return false
	}
	return name == target || strings.HasSuffix(name, "."+target) || strings.HasSuffix(name, ")."+target)
}

// names of locals defined before a loop (DebugRef in a block that strictly dominates the header):
// such SSA values do not change inside the loop, so invariants may mention them by source name
func (f *Frame) bindNamesBefore(env *SpecEnv, header *ssa.BasicBlock) {
	for _, b := range rpo(f.fn) {
		if b == header || !b.Dominates(header) {
			continue
		}
		for _, ins := range b.Instrs {
			d, ok := ins.(*ssa.DebugRef)
			if !ok || d.IsAddr {
				continue
			}
			id, ok := d.Expr.(*ast.Ident)
			if !ok {
				continue
			}
			v, done := f.vals[d.X]
			if !done {
				continue
			}
			if _, taken := env.vars[id.Name]; taken {
				continue
			}
			env.vars[id.Name] = v
		}
	}
}

// ghost location counting the writes to a package-level map ("pkg.Name")
func mapWritesLoc(g string) string { return "G:$mapwrites:" + g }

// ---- ghost "was called" flags -------------------------------------------------------------
// called(Name) in a postcondition is true when the function has executed a direct call of a callee
// matching Name (same matching as callsite targets) since entry.  The flag lives in a ghost
// location that loops containing such a call havoc, so "true after the loop" holds only when
// every way out of the loop passes a call - which is the case for `for { t := p.Read(); if t ==
// nil { break } ... }`.

var calledRe = regexp.MustCompile(`called\(([A-Za-z0-9_.*/()$]+)\)`)

func calledLoc(name string) string { return "G:$called:" + name }

// names mentioned as called(..) in the contract's clauses
func (ct *Contract) trackedCalls() []string {
	if ct == nil {
		return nil
	}
	if ct.tracked != nil {
		return ct.tracked
	}
	seen := map[string]bool{}
	ct.tracked = []string{}
	scan := func(t string) {
		for _, m := range calledRe.FindAllStringSubmatch(t, -1) {
			if !seen[m[1]] {
				seen[m[1]] = true
				ct.tracked = append(ct.tracked, m[1])
			}
		}
	}
	for _, c := range ct.Ensures {
		scan(c.Text)
	}
	for _, cs := range ct.LoopInv {
		for _, c := range cs {
			scan(c.Text)
		}
	}
	return ct.tracked
}

func (f *Frame) noteCalled(c *ssa.CallCommon) {
	vc := f.vc
	if !f.top || vc.contract == nil || vc.pure > 0 {
		return
	}
	name := calleeName(c)
	for _, t := range vc.contract.trackedCalls() {
		if siteTargetMatches(name, t) {
			vc.he.set(f.cur, calledLoc(t), "Bool", "true")
		}
	}
}

// ghost locations a loop body may set (added to the loop's mod-set)
func (vc *VC) calledLocsIn(li *loopInfo) []string {
	var out []string
	for _, t := range vc.contract.trackedCalls() {
		hit := false
		for b := range li.body {
			for _, ins := range b.Instrs {
				if ci, ok := ins.(ssa.CallInstruction); ok && siteTargetMatches(calleeName(ci.Common()), t) {
					hit = true
				}
			}
		}
		if hit {
			out = append(out, calledLoc(t))
		}
	}
	return out
}

// globalstore[Cxx] <pkg.Global> <expr>: the expression must hold at every store to that
// package-level variable in the function (`F/site:store.<i>#n`); `value` is the stored value
func (f *Frame) siteGlobalStore(x *ssa.Store) {
	vc := f.vc
	if !f.top || vc.contract == nil || vc.pure > 0 {
		return
	}
	g, ok := x.Addr.(*ssa.Global)
	if !ok {
		return
	}
	name := g.Pkg.Pkg.Name() + "." + g.Name()
	for i, sc := range vc.contract.Sites {
		if sc.Kind != "globalstore" || sc.Target != name {
			continue
		}
		env := f.siteEnv()
		env.vars["value"] = f.val(x.Val)
		goal, inScope := evalSiteClause(env, sc.Expr)
		if !inScope {
			continue
		}
		f.oblige(fmt.Sprintf("site:store.%d", i), goal, "every store to "+name+" in this function: "+sc.Text, x.Pos(), sc.Tags, true)
	}
}
