package main

// Contract files (//@ lines in /repo/<pkg>/verif_contracts.go, build tag verif)
// and the specification-expression evaluator.

import (
	"fmt"
	"go/ast"
	"go/constant"
	"go/parser"
	"go/token"
	"go/types"
	"os"
	"path/filepath"
	"regexp"
	"sort"
	"strconv"
	"strings"

	"golang.org/x/tools/go/ssa"
)

type Clause struct {
	Kind string // requires ensures invariant decreases
	Tags []string
	Text string
	Expr ast.Expr
	Exprs []ast.Expr // decreases tuple
	Loop int
	File string
	Line int
}

type Contract struct {
	Func     string
	Pkg      string // package path of the contract file
	Requires []*Clause
	Ensures  []*Clause
	Decr     *Clause
	LoopInv  map[int][]*Clause
	LoopDecr map[int]*Clause
	Safe     bool
	SafeKinds map[string]bool
	Modular  bool // never inline at call sites even if it has no ensures
	Transparent bool // callers that can inline the body do so instead of using the postconditions
	ByContract map[string]bool // transparent callees (by short name) that this function uses through their contract
	NoBody   bool
	SitesOnly bool
	EosExit  bool
	InlineBlocks, InlineDepth int
	Witness  map[string]string
	Unordered map[int]string // map-range ordinal -> the only entry point from which the function may be reached
	UsesOnly []UsesOnly
	Between  []BetweenClause
	Paired   []PairedClause
	DeferredOnly []DeferredOnlyClause
	Sites    []SiteClause
	Bound    bool
	Terminates bool
	tracked  []string // callee names mentioned as called(..) (see sites.go)
	SafeDeref map[string]bool
	SafeDerefTags []string
	TermTags []string
	Assigns  []string
	Line     int
	File     string
}

type UsesOnly struct {
	Value   string
	Allowed []string
	Tags    []string
	Text    string
}

type SpecFunc struct {
	Name   string
	Params []string
	Body   ast.Expr
	Pkg    string
	Text   string
	Opaque bool
}

var kwRe = regexp.MustCompile(`^(func|spec|readers|writers|callers|stateless|between|paired|deferredonly|safederef|preserved|internal|inline|eosexit|requires|ensures|decreases|loop|safe|modular|transparent|bycontract|terminates|witness|witnessgo|unordered|usesonly|mapwrite|globalstore|callsite|nobody|sitesonly|end)\b`)

func (e *Engine) loadContracts() error {
	e.contracts = map[string]*Contract{}
	e.specFuncs = map[string]*SpecFunc{}
	var files []string
	filepath.Walk(e.repo, func(p string, info os.FileInfo, err error) error {
		if err == nil && !info.IsDir() && strings.HasSuffix(p, "verif_contracts.go") {
			files = append(files, p)
		}
		return nil
	})
	for _, f := range files {
		var data []byte
		if ov, ok := e.overlay[f]; ok {
			data = ov
		} else {
			var err error
			data, err = os.ReadFile(f)
			if err != nil {
				return err
			}
		}
		rel, _ := filepath.Rel(e.repo, filepath.Dir(f))
		pkgPath := "ti"
		if rel != "." {
			pkgPath = "ti/" + filepath.ToSlash(rel)
		}
		if err := e.parseContractFile(f, pkgPath, string(data)); err != nil {
			return err
		}
	}
	return nil
}

func (e *Engine) parseContractFile(file, pkgPath, data string) error {
	// logical lines
	type lline struct {
		text string
		line int
	}
	var lines []lline
	for i, raw := range strings.Split(data, "\n") {
		t := strings.TrimSpace(raw)
		if !strings.HasPrefix(t, "//@") {
			continue
		}
		t = strings.TrimSpace(strings.TrimPrefix(t, "//@"))
		if t == "" || strings.HasPrefix(t, "#") {
			continue
		}
		if kwRe.MatchString(t) || len(lines) == 0 {
			lines = append(lines, lline{t, i + 1})
		} else {
			lines[len(lines)-1].text += " " + t
		}
	}
	var cur *Contract
	for _, l := range lines {
		fields := strings.Fields(l.text)
		kw := fields[0]
		tags := []string(nil)
		if i := strings.Index(kw, "["); i >= 0 {
			tags = strings.Split(strings.TrimSuffix(kw[i+1:], "]"), ",")
			kw = kw[:i]
		}
		rest := strings.TrimSpace(strings.TrimPrefix(l.text, fields[0]))
		mk := func(kind, text string) (*Clause, error) {
			c := &Clause{Kind: kind, Tags: tags, Text: text, File: file, Line: l.line}
			if kind == "decreases" {
				for _, part := range splitTop(text, ',') {
					ex, err := parseSpecExpr(part)
					if err != nil {
						return nil, fmt.Errorf("%s:%d: %v", file, l.line, err)
					}
					c.Exprs = append(c.Exprs, ex)
				}
				return c, nil
			}
			ex, err := parseSpecExpr(text)
			if err != nil {
				return nil, fmt.Errorf("%s:%d: %v in %q", file, l.line, err, text)
			}
			c.Expr = ex
			return c, nil
		}
		switch kw {
		case "internal":
			// internal <function> <pkg>,<pkg>: may be called only from these packages (checked on the call graph)
			if len(fields) >= 3 {
				if e.internal == nil {
					e.internal = map[string][]string{}
				}
				e.internal[fields[1]] = strings.Split(fields[2], ",")
			}
		case "readers":
			// readers[Cxx] <pkg.Global> <func>,<func>,...: the global is accessed only inside these functions
			if len(fields) >= 3 {
				e.readers = append(e.readers, ReadersClause{Tags: tags, Global: fields[1], Funcs: strings.Split(fields[2], ",")})
			}
		case "stateless":
			// stateless[Cxx] <pkg/path.Type>: the struct type has no fields
			if len(fields) >= 2 {
				e.stateless = append(e.stateless, StatelessClause{Tags: tags, Type: fields[1]})
			}
		case "callers":
			// callers[Cxx] <function> <func>,<func>,...: the function is called directly only inside these functions
			if len(fields) >= 3 {
				e.callers = append(e.callers, CallersClause{Tags: tags, Callee: fields[1], Funcs: strings.Split(fields[2], ",")})
			}
		case "writers":
			// writers[Cxx] <pkg.Type.Field> <func>,<func>,...: the field is stored to only inside these functions
			if len(fields) >= 3 {
				e.writers = append(e.writers, WritersClause{Tags: tags, Field: fields[1], Funcs: strings.Split(fields[2], ",")})
			}
		case "preserved":
			// preserved <pred> <type> owners <pkg>,<pkg>,...
			if len(fields) >= 5 && fields[3] == "owners" {
				e.preserved = append(e.preserved, Preserved{Pred: fields[1], Type: fields[2], Owners: strings.Split(fields[4], ",")})
			}
		case "spec":
			// spec name(a, b) = expr
			eqi := strings.Index(rest, "=")
			head := strings.TrimSpace(rest[:eqi])
			body := strings.TrimSpace(rest[eqi+1:])
			opaque := false
			if strings.HasPrefix(head, "opaque ") {
				// abstract predicate: expanded only inside its own package; elsewhere an uninterpreted
				// function of its arguments and of the heap locations its body reads
				opaque = true
				head = strings.TrimSpace(strings.TrimPrefix(head, "opaque "))
			}
			op := strings.Index(head, "(")
			name := strings.TrimSpace(head[:op])
			var params []string
			for _, p := range strings.Split(strings.TrimSuffix(head[op+1:], ")"), ",") {
				p = strings.TrimSpace(p)
				if p != "" {
					params = append(params, strings.Fields(p)[0])
				}
			}
			ex, err := parseSpecExpr(body)
			if err != nil {
				return fmt.Errorf("%s:%d: %v in %q", file, l.line, err, body)
			}
			e.specFuncs[name] = &SpecFunc{Name: name, Params: params, Body: ex, Pkg: pkgPath, Text: body, Opaque: opaque}
		case "func":
			if prev := e.contracts[rest]; prev != nil {
				return fmt.Errorf("%s:%d: second contract block for %s (first at %s:%d): merge them", file, l.line, rest, prev.File, prev.Line)
			}
			if strings.ContainsAny(rest, " \t") {
				// (an unknown directive on the next line is joined to this one as a continuation)
				return fmt.Errorf("%s:%d: malformed function name %q (unknown directive on the following line?)", file, l.line, rest)
			}
			cur = &Contract{Func: rest, Pkg: pkgPath, LoopInv: map[int][]*Clause{}, LoopDecr: map[int]*Clause{}, Witness: map[string]string{}, Line: l.line, File: file}
			e.contracts[rest] = cur
			e.contractOrder = append(e.contractOrder, rest)
		case "requires", "ensures":
			if cur == nil {
				return fmt.Errorf("%s:%d: clause outside func", file, l.line)
			}
			c, err := mk(kw, rest)
			if err != nil {
				return err
			}
			if kw == "requires" {
				cur.Requires = append(cur.Requires, c)
			} else {
				cur.Ensures = append(cur.Ensures, c)
			}
		case "decreases":
			c, err := mk("decreases", rest)
			if err != nil {
				return err
			}
			cur.Decr = c
		case "loop":
			n, _ := strconv.Atoi(fields[1])
			kind := fields[2]
			if i := strings.Index(kind, "["); i >= 0 {
				tags = strings.Split(strings.TrimSuffix(kind[i+1:], "]"), ",")
				kind = kind[:i]
			}
			text := strings.TrimSpace(strings.SplitN(l.text, fields[2], 2)[1])
			c, err := mk(kind, text)
			if err != nil {
				return err
			}
			c.Loop = n
			if kind == "invariant" {
				cur.LoopInv[n] = append(cur.LoopInv[n], c)
			} else if kind == "decreases" {
				cur.LoopDecr[n] = c
			} else {
				return fmt.Errorf("%s:%d: bad loop clause %q", file, l.line, kind)
			}
		case "mapwrite", "callsite", "globalstore":
			// mapwrite[tags] <pkg.Global> <expr over key, value and locals>
			// callsite[tags] <callee name> <expr over a_<param> and locals>
			// assertion at every direct write to that map / direct call of that callee in this function
			if len(fields) >= 3 {
				text := strings.TrimSpace(strings.TrimPrefix(rest, fields[1]))
				ex, err := parseSpecExpr(text)
				if err != nil {
					return fmt.Errorf("%s:%d: %v in %q", file, l.line, err, text)
				}
				cur.Sites = append(cur.Sites, SiteClause{Kind: kw, Target: fields[1], Expr: ex, Tags: tags, Text: text})
			}
		case "deferredonly":
			// deferredonly[tags] <local>: see between.go
			if len(fields) >= 2 {
				cur.DeferredOnly = append(cur.DeferredOnly, DeferredOnlyClause{Name: fields[1], Tags: tags})
			}
		case "paired":
			// paired[tags] <A> <B>: every call of A is followed at once by `defer B` (see between.go)
			if len(fields) >= 3 {
				cur.Paired = append(cur.Paired, PairedClause{A: fields[1], B: fields[2], Tags: tags})
			}
		case "between":
			// between[tags] <A> <B> [allow f,g] [state pkg,pkg]: see between.go
			if bc, ok := parseBetween(fields, tags, rest); ok {
				cur.Between = append(cur.Between, bc)
			}
		case "usesonly":
			// usesonly[tags] <param | result-of:<callee>> <allowed callee>[,<allowed callee>...]
			// def-use frame obligation: the value flows nowhere else (len() is always allowed)
			if len(fields) >= 3 {
				cur.UsesOnly = append(cur.UsesOnly, UsesOnly{Value: fields[1], Allowed: strings.Split(fields[2], ","), Tags: tags, Text: rest})
			}
		case "witnessgo":
			// witnessgo <obligation-suffix> <Go statements>: body of an in-package test that sets
			// `violated = true` when the real code shows the violation (a replay aid, never evidence)
			parts := strings.SplitN(rest, " ", 2)
			if len(parts) == 2 {
				cur.Witness[parts[0]+"|go"] = parts[1]
			}
		case "unordered":
			// unordered <map-range ordinal> <entry point>: the property allows an unordered result there
			if len(fields) >= 3 {
				n, _ := strconv.Atoi(fields[1])
				if cur.Unordered == nil {
					cur.Unordered = map[int]string{}
				}
				cur.Unordered[n] = strings.Join(fields[2:], " ")
			}
		case "safe":
			// safe            : every safety obligation of the function (and of inlined callees) is claimed
			// safe idx,slice  : only these kinds, and only in the function's own code ("own" obligations)
			cur.Safe = true
			if len(fields) >= 2 {
				cur.SafeKinds = map[string]bool{}
				for _, k := range strings.Split(fields[1], ",") {
					cur.SafeKinds[k] = true
				}
			}
		case "safederef":
			// safederef[tags] <pkg.Global>: the nil obligation of every load that is copied into that global is claimed
			if len(fields) >= 2 {
				if cur.SafeDeref == nil {
					cur.SafeDeref = map[string]bool{}
				}
				cur.SafeDeref[fields[1]] = true
				cur.SafeDerefTags = tags
			}
		case "modular":
			cur.Modular = true
		case "transparent":
			cur.Transparent = true
		case "bycontract":
			if cur.ByContract == nil {
				cur.ByContract = map[string]bool{}
			}
			for _, n := range strings.FieldsFunc(rest, func(r rune) bool { return r == ',' || r == ' ' }) {
				cur.ByContract[n] = true
			}
		case "inline":
			// inline <max blocks> <max depth>: how far callees without contract are inlined
			if len(fields) >= 3 {
				cur.InlineBlocks, _ = strconv.Atoi(fields[1])
				cur.InlineDepth, _ = strconv.Atoi(fields[2])
			}
		case "eosexit":
			cur.EosExit = true // every loop that reads a token leaves when the read hits the end of the stream
		case "sitesonly":
			cur.SitesOnly = true
		case "nobody":
			cur.NoBody = true // only the syntactic (def-use) obligations; the body is not executed
		case "terminates":
			cur.Terminates = true
			cur.TermTags = tags
		case "witness":
			// witness <obligation-suffix> "<source>"
			// optional:  expect "<substring of the output>"   args "<extra command line>"
			parts := strings.SplitN(rest, " ", 2)
			if len(parts) == 2 {
				body := strings.TrimSpace(parts[1])
				if q, err := strconv.QuotedPrefix(body); err == nil {
					s, _ := strconv.Unquote(q)
					cur.Witness[parts[0]] = s
					tail := strings.TrimSpace(body[len(q):])
					for tail != "" {
						f := strings.SplitN(tail, " ", 2)
						if len(f) < 2 {
							break
						}
						q2, err := strconv.QuotedPrefix(strings.TrimSpace(f[1]))
						if err != nil {
							break
						}
						v, _ := strconv.Unquote(q2)
						cur.Witness[parts[0]+"|"+f[0]] = v
						tail = strings.TrimSpace(strings.TrimSpace(f[1])[len(q2):])
					}
				}
			}
		case "end":
			cur = nil
		default:
			return fmt.Errorf("%s:%d: unknown keyword %q", file, l.line, kw)
		}
	}
	return nil
}

// split at top-level occurrences of sep (outside parentheses, brackets, quotes)
func splitTop(s string, sep byte) []string {
	var out []string
	d := 0
	start := 0
	inq := byte(0)
	for i := 0; i < len(s); i++ {
		c := s[i]
		if inq != 0 {
			if c == '\\' {
				i++
			} else if c == inq {
				inq = 0
			}
			continue
		}
		switch c {
		case '"', '\'', '`':
			inq = c
		case '(', '[', '{':
			d++
		case ')', ']', '}':
			d--
		default:
			if c == sep && d == 0 {
				out = append(out, s[start:i])
				start = i + 1
			}
		}
	}
	out = append(out, s[start:])
	return out
}

// rewrite  A ==> B  into imp(A, B) (right associative, lowest precedence)
func rewriteImp(s string) string {
	parts := splitTop(s, ',')
	for i, p := range parts {
		parts[i] = rewriteImp1(p)
	}
	return strings.Join(parts, ",")
}

func rewriteImp1(s string) string {
	// find first top-level ==>
	d := 0
	inq := byte(0)
	for i := 0; i+2 < len(s); i++ {
		c := s[i]
		if inq != 0 {
			if c == '\\' {
				i++
			} else if c == inq {
				inq = 0
			}
			continue
		}
		switch c {
		case '"', '\'', '`':
			inq = c
		case '(', '[', '{':
			d++
		case ')', ']', '}':
			d--
		case '=':
			if d == 0 && s[i:i+3] == "==>" {
				return "imp(" + rewriteInner(s[:i]) + ", " + rewriteImp1(s[i+3:]) + ")"
			}
		}
	}
	return rewriteInner(s)
}

// rewrite inside parenthesised groups
func rewriteInner(s string) string {
	var b strings.Builder
	inq := byte(0)
	for i := 0; i < len(s); i++ {
		c := s[i]
		if inq != 0 {
			b.WriteByte(c)
			if c == '\\' && i+1 < len(s) {
				i++
				b.WriteByte(s[i])
			} else if c == inq {
				inq = 0
			}
			continue
		}
		if c == '"' || c == '\'' || c == '`' {
			inq = c
			b.WriteByte(c)
			continue
		}
		if c == '(' || c == '[' {
			closeC := byte(')')
			if c == '[' {
				closeC = ']'
			}
			// find the matching close
			d := 0
			j := i
			q := byte(0)
			for ; j < len(s); j++ {
				cj := s[j]
				if q != 0 {
					if cj == '\\' {
						j++
					} else if cj == q {
						q = 0
					}
					continue
				}
				if cj == '"' || cj == '\'' || cj == '`' {
					q = cj
				} else if cj == '(' || cj == '[' {
					d++
				} else if cj == ')' || cj == ']' {
					d--
					if d == 0 {
						break
					}
				}
			}
			if j >= len(s) {
				b.WriteString(s[i:])
				return b.String()
			}
			b.WriteByte(c)
			b.WriteString(rewriteImp(s[i+1 : j]))
			b.WriteByte(closeC)
			i = j
			continue
		}
		b.WriteByte(c)
	}
	return b.String()
}

func parseSpecExpr(text string) (ast.Expr, error) {
	return parser.ParseExpr(rewriteImp(text))
}

// ---- evaluation ----

type SpecEnv struct {
	f      *Frame
	vars   map[string]Val
	st     *State
	old    *State
	result []Val
	pkg    string // package path for resolving bare function / const names
	depth  int
	seen   string // loop clauses of a map-range loop: ghost location of the keys produced so far
	seenK  types.Type
	self   *ssa.Function // the function whose contract is being evaluated (nil: the function under verification)
}

func (env *SpecEnv) with(st *State) *SpecEnv {
	n := *env
	n.st = st
	return &n
}

func (env *SpecEnv) bind(name string, v Val) *SpecEnv {
	n := *env
	n.vars = map[string]Val{}
	for k, x := range env.vars {
		n.vars[k] = x
	}
	n.vars[name] = v
	return &n
}

func specErr(format string, a ...any) {
	panic(unsupportedErr{"spec: " + fmt.Sprintf(format, a...)})
}

func (env *SpecEnv) evalBool(e ast.Expr) string {
	v := env.eval(e)
	return v.t
}

// run fn with a temporarily switched current state
func (env *SpecEnv) inState(fn func() Val) Val {
	f := env.f
	saved := f.cur
	savedReach := f.reach[f.curB]
	f.cur = env.st.clone()
	f.vc.pure++
	defer func() { f.cur = saved; f.vc.pure--; f.reach[f.curB] = savedReach }()
	return fn()
}

func (env *SpecEnv) eval(e ast.Expr) Val {
	f := env.f
	vc := f.vc
	boolT := types.Typ[types.Bool]
	intT := types.Typ[types.Int]
	switch x := e.(type) {
	case *ast.ParenExpr:
		return env.eval(x.X)
	case *ast.BasicLit:
		switch x.Kind {
		case token.INT:
			n, _ := strconv.ParseInt(x.Value, 0, 64)
			return Val{t: num(n), typ: intT}
		case token.CHAR:
			r, _, _, _ := strconv.UnquoteChar(x.Value[1:len(x.Value)-1], '\'')
			return Val{t: num(int64(r)), typ: types.Typ[types.Rune]}
		case token.STRING:
			s, _ := strconv.Unquote(x.Value)
			return Val{t: smtString(s), typ: types.Typ[types.String]}
		}
		specErr("literal %s", x.Value)
	case *ast.Ident:
		switch x.Name {
		case "true":
			return Val{t: "true", typ: boolT}
		case "false":
			return Val{t: "false", typ: boolT}
		case "nil":
			return Val{t: "nil", typ: types.Typ[types.UntypedNil]}
		case "result", "result0":
			if len(env.result) < 1 {
				// (a local that happens to be called `result`, e.g. in a loop invariant)
				if v, ok := env.vars[x.Name]; ok {
					return v
				}
				specErr("result used where no result is available")
			}
			return env.result[0]
		case "result1":
			return env.result[1]
		case "result2":
			return env.result[2]
		}
		if v, ok := env.vars[x.Name]; ok {
			return v
		}
		// package-level constant or variable
		if v, ok := env.pkgObject(env.pkg, x.Name); ok {
			return v
		}
		// a name of another module package (spec functions expanded across packages): unique match
		for _, pp := range vc.eng.modulePkgs() {
			if v, ok := env.pkgObject(pp, x.Name); ok {
				return v
			}
		}
		specErr("unknown identifier %s", x.Name)
	case *ast.UnaryExpr:
		v := env.eval(x.X)
		switch x.Op {
		case token.NOT:
			return Val{t: not(v.t), typ: boolT}
		case token.SUB:
			return Val{t: app("-", v.t), typ: v.typ}
		}
		specErr("unary %s", x.Op)
	case *ast.BinaryExpr:
		a := env.eval(x.X)
		b := env.eval(x.Y)
		switch x.Op {
		case token.LAND:
			return Val{t: and(a.t, b.t), typ: boolT}
		case token.LOR:
			return Val{t: or(a.t, b.t), typ: boolT}
		case token.EQL, token.NEQ:
			a, b = env.fixNil(a, b)
			var r string
			if a.isSliceNilCmp(b) {
				r = eq(app("s_arr", a.t), "0")
			} else if b.isSliceNilCmp(a) {
				r = eq(app("s_arr", b.t), "0")
			} else {
				r = eq(env.mat(a), env.mat(b))
			}
			if x.Op == token.NEQ {
				r = not(r)
			}
			return Val{t: r, typ: boolT}
		}
		return f.binop(x.Op, env.rv(a), env.rv(b), binResultType(x.Op, a.typ), token.NoPos)
	case *ast.SelectorExpr:
		// package-qualified name?
		if id, ok := x.X.(*ast.Ident); ok {
			if _, isVar := env.vars[id.Name]; !isVar {
				if pp := vc.eng.pkgByName(id.Name); pp != "" {
					if v, ok := env.pkgObject(pp, x.Sel.Name); ok {
						return v
					}
					specErr("unknown %s.%s", id.Name, x.Sel.Name)
				}
			}
		}
		base := env.eval(x.X)
		return env.field(base, x.Sel.Name)
	case *ast.IndexExpr:
		base := env.rv(env.eval(x.X))
		idx := env.rv(env.eval(x.Index))
		switch bt := base.typ.Underlying().(type) {
		case *types.Slice:
			arr, off, _, _ := sliceParts(base.t)
			pos := app("+", off, idx.t)
			if isStruct(bt.Elem()) {
				return Val{t: vc.elemRef(arr, pos), typ: types.NewPointer(bt.Elem())}
			}
			l, li := locElem(bt.Elem())
			return env.inState(func() Val {
				return Val{t: f.readAddr(&Addr{kind: "E", loc: l, li: li, ref: arr, idx: pos}), typ: bt.Elem()}
			})
		case *types.Basic:
			return Val{t: app("str.to_code", app("str.at", base.t, idx.t)), typ: types.Typ[types.Byte]}
		case *types.Map:
			return env.inState(func() Val {
				v, _ := f.mapRead(base.typ, base.t, env.mat(idx))
				return Val{t: v, typ: bt.Elem()}
			})
		case *types.Array:
			return Val{t: app("select", base.t, idx.t), typ: bt.Elem()}
		}
		specErr("index on %s", base.typ)
	case *ast.SliceExpr:
		base := env.rv(env.eval(x.X))
		lo := "0"
		if x.Low != nil {
			lo = env.eval(x.Low).t
		}
		switch base.typ.Underlying().(type) {
		case *types.Slice:
			arr, off, ln, cp := sliceParts(base.t)
			hi := ln
			if x.High != nil {
				hi = env.eval(x.High).t
			}
			return Val{t: app("mk_slice", arr, app("+", off, lo), app("-", hi, lo), app("-", cp, lo)), typ: base.typ}
		case *types.Basic:
			hi := app("str.len", base.t)
			if x.High != nil {
				hi = env.eval(x.High).t
			}
			return Val{t: app("str.substr", base.t, lo, app("-", hi, lo)), typ: base.typ}
		}
		specErr("slice expr on %s", base.typ)
	case *ast.CallExpr:
		return env.call(x)
	}
	specErr("expression %T", e)
	return Val{}
}

func binResultType(op token.Token, t types.Type) types.Type {
	switch op {
	case token.LSS, token.LEQ, token.GTR, token.GEQ, token.EQL, token.NEQ:
		return types.Typ[types.Bool]
	}
	return t
}

func (v Val) isSliceNilCmp(o Val) bool {
	if v.typ == nil || o.t != "nil" {
		return false
	}
	_, ok := v.typ.Underlying().(*types.Slice)
	return ok
}

func (env *SpecEnv) fixNil(a, b Val) (Val, Val) {
	fix := func(n Val, other Val) Val {
		if n.t != "nil" || other.typ == nil {
			return n
		}
		switch other.typ.Underlying().(type) {
		case *types.Interface:
			return Val{t: "(mk_iface 0 0)", typ: other.typ}
		case *types.Slice:
			return n
		}
		return Val{t: "0", typ: other.typ}
	}
	return fix(a, b), fix(b, a)
}

// spec values of struct type living in the heap are carried as references; rv turns
// address-like values into terms.
func (env *SpecEnv) rv(v Val) Val {
	if v.addr != nil {
		a := v.addr
		return env.inState(func() Val {
			return Val{t: env.f.readAddr(a), typ: a.typ}
		})
	}
	return v
}

func (env *SpecEnv) mat(v Val) string {
	return env.rv(v).t
}

func (env *SpecEnv) field(base Val, name string) Val {
	f := env.f
	vc := f.vc
	base = env.rv(base)
	t := base.typ
	isPtr := false
	if p, ok := t.Underlying().(*types.Pointer); ok {
		t = p.Elem()
		isPtr = true
	}
	st, ok := t.Underlying().(*types.Struct)
	if !ok {
		specErr("field %s of non-struct %s", name, base.typ)
	}
	idx := -1
	for i := 0; i < st.NumFields(); i++ {
		if st.Field(i).Name() == name {
			idx = i
		}
	}
	if idx < 0 {
		// promoted through embedded fields
		for i := 0; i < st.NumFields(); i++ {
			if st.Field(i).Embedded() {
				inner := env.field(base, st.Field(i).Name())
				func() {
					defer func() { recover() }()
					r := env.field(inner, name)
					idx = -2
					base = r
				}()
				if idx == -2 {
					return base
				}
			}
		}
		specErr("no field %s in %s", name, t)
	}
	ft := st.Field(idx).Type()
	if !isPtr {
		return Val{t: app(vc.te.fieldSel(t, idx), base.t), typ: ft}
	}
	if isStruct(ft) {
		return Val{t: vc.subRef(t, idx, base.t), typ: types.NewPointer(ft)}
	}
	l, li := locField(t, idx)
	v := env.inState(func() Val {
		return Val{t: f.readAddr(&Addr{kind: "F", loc: l, li: li, ref: base.t}), typ: ft}
	})
	// values read from the heap satisfy their type invariant (w.r.t. that state's allocation frontier)
	if !hasBound(v.t) {
		switch ft.Underlying().(type) {
		case *types.Slice, *types.Pointer, *types.Map, *types.Interface:
			key := "tinv:" + v.t
			if !vc.sc.declSet[key] {
				vc.sc.declSet[key] = true
				front := vc.he.get(env.st, "ALLOC", "Int")
				vc.sc.assume(vc.te.typeInv(ft, v.t, 0, front))
			}
		}
	}
	return v
}

func (env *SpecEnv) pkgObject(pkgPath, name string) (Val, bool) {
	vc := env.f.vc
	p := vc.eng.prog.ImportedPackage(pkgPath)
	if p == nil {
		return Val{}, false
	}
	switch m := p.Members[name].(type) {
	case *ssa.NamedConst:
		return vc.constVal(m.Value), true
	case *ssa.Global:
		g := env.f.val(m)
		if g.addr != nil {
			return env.rv(g), true
		}
		return g, true
	}
	if o := p.Pkg.Scope().Lookup(name); o != nil {
		if c, ok := o.(*types.Const); ok {
			if c.Val().Kind() == constant.Int {
				i, _ := constant.Int64Val(c.Val())
				return Val{t: num(i), typ: c.Type()}, true
			}
		}
	}
	return Val{}, false
}

func (env *SpecEnv) call(x *ast.CallExpr) Val {
	f := env.f
	vc := f.vc
	boolT := types.Typ[types.Bool]
	intT := types.Typ[types.Int]
	name := ""
	pkg := env.pkg
	switch fn := x.Fun.(type) {
	case *ast.Ident:
		name = fn.Name
	case *ast.SelectorExpr:
		if id, ok := fn.X.(*ast.Ident); ok {
			if pp := vc.eng.pkgByName(id.Name); pp != "" {
				pkg = pp
				name = fn.Sel.Name
			}
		}
		if name == "" {
			// method call on a value: recv.Method(args)
			recv := env.eval(fn.X)
			return env.methodCall(recv, fn.Sel.Name, x.Args)
		}
	}
	switch name {
	case "old":
		if env.old == nil {
			specErr("old() without a pre-state")
		}
		return env.with(env.old).eval(x.Args[0])
	case "fresh": // fresh(p): the object p points to was allocated after the pre-state (beyond its allocation frontier)
		if env.old == nil {
			specErr("fresh() without a pre-state")
		}
		v := env.rv(env.eval(x.Args[0]))
		if _, ok := v.typ.Underlying().(*types.Pointer); !ok {
			specErr("fresh() needs a pointer")
		}
		// a whole object (references of objects are positive, interior references negative) beyond the frontier
		vc.elemRef(app("elem_arr", v.t), app("elem_idx", v.t))
		return Val{t: app(">", v.t, vc.he.get(env.old, "ALLOC", "Int")), typ: boolT}
	case "valueof": // valueof(p): the whole struct value p points to (a package-level struct variable denotes its address)
		v := env.rv(env.eval(x.Args[0]))
		pt, ok := v.typ.Underlying().(*types.Pointer)
		if !ok || !isStruct(pt.Elem()) {
			specErr("valueof() needs a pointer to a struct (or a package-level struct variable)")
		}
		return env.inState(func() Val {
			return Val{t: f.gather(pt.Elem(), v.t), typ: pt.Elem()}
		})
	case "whole": // whole(p): p points to an allocated object itself, not into one (not a slice element or embedded struct)
		v := env.rv(env.eval(x.Args[0]))
		if _, ok := v.typ.Underlying().(*types.Pointer); !ok {
			specErr("whole() needs a pointer")
		}
		// (instance of "element references are negative" at p, so that frame conditions phrased over
		// element references can tell p apart from them)
		vc.elemRef(app("elem_arr", v.t), app("elem_idx", v.t))
		return Val{t: app(">", v.t, "0"), typ: boolT}
	case "imp":
		return Val{t: implies(env.evalBool(x.Args[0]), env.evalBool(x.Args[1])), typ: boolT}
	case "ite":
		a, b := env.rv(env.eval(x.Args[1])), env.rv(env.eval(x.Args[2]))
		return Val{t: ite(env.evalBool(x.Args[0]), a.t, b.t), typ: a.typ}
	case "len":
		v := env.rv(env.eval(x.Args[0]))
		switch v.typ.Underlying().(type) {
		case *types.Slice:
			return Val{t: app("s_len", v.t), typ: intT}
		case *types.Basic:
			return Val{t: app("str.len", v.t), typ: intT}
		}
		specErr("len of %s", v.typ)
	case "cap":
		v := env.rv(env.eval(x.Args[0]))
		return Val{t: app("s_cap", v.t), typ: intT}
	case "forall", "exists", "forallx", "existsx":
		// forall(i, body)  or  forall(k, "go type", body)
		// forallx / existsx: the same quantifier, with every slice read s[i] re-indexed by the
		// absolute position in the backing array and an explicit trigger on it (also for slices of
		// non-struct elements, where plain forall leaves trigger selection to the solver)
		absAlways := strings.HasSuffix(name, "x")
		name = strings.TrimSuffix(name, "x")
		id := x.Args[0].(*ast.Ident).Name
		bv := boundPrefix + id
		var bt types.Type = intT
		if len(x.Args) == 3 {
			ts, _ := strconv.Unquote(x.Args[1].(*ast.BasicLit).Value)
			bt = vc.eng.typeByString(ts)
			if bt == nil {
				specErr("unknown type %q", ts)
			}
		}
		inner := env.bind(id, Val{t: bv, typ: bt})
		body := inner.evalBool(x.Args[len(x.Args)-1])
		if len(elemTriggers(body, bv)) > 0 {
			if nb, ok := absIndexRewrite(body, bv); ok {
				body = vc.nameElemArrays(nb)
			}
		}
		if absAlways && len(elemTriggers(body, bv)) == 0 {
			if nb, ok := absIndexRewrite(body, bv); ok {
				body = nb
				if pats := selectTriggers(body, bv); len(pats) > 0 {
					body = "(! " + body
					for _, p := range pats {
						body += " :pattern (" + p + ")"
					}
					body += ")"
				}
			}
		}
		if pats := elemTriggers(body, bv); len(pats) > 0 {
			// explicit triggers for struct-element references elem(arr, off+i): pattern inference
			// is unreliable for terms with arithmetic inside, and the append model states its facts
			// in exactly this shape
			body = "(! " + body
			for _, p := range pats {
				body += " :pattern (" + p + ")"
			}
			body += ")"
		}
		return Val{t: fmt.Sprintf("(%s ((%s %s)) %s)", name, bv, vc.te.sortOf(bt), body), typ: boolT}
	case "has": // has(m, k): key present in map
		m := env.rv(env.eval(x.Args[0]))
		k := env.rv(env.eval(x.Args[1]))
		return env.inState(func() Val {
			_, ok := f.mapRead(m.typ, m.t, k.t)
			return Val{t: ok, typ: boolT}
		})
	case "typeis": // typeis(x, "go type string")
		v := env.rv(env.eval(x.Args[0]))
		ts, _ := strconv.Unquote(x.Args[1].(*ast.BasicLit).Value)
		t := vc.eng.typeByString(ts)
		if t == nil {
			specErr("unknown type %q", ts)
		}
		return Val{t: eq(app("i_tag", v.t), fmt.Sprint(vc.te.tagOf(t))), typ: boolT}
	case "inscope": // inscope(name): is that local visible at this program point (decided statically; site clauses)
		id, ok := x.Args[0].(*ast.Ident)
		if !ok {
			specErr("inscope needs an identifier")
		}
		if _, in := env.vars[id.Name]; in {
			return Val{t: "true", typ: boolT}
		}
		return Val{t: "false", typ: boolT}
	case "mk": // mk("pkg/path.Struct", f1, f2, ..): a struct value (e.g. a map key) from its fields in order
		ts, _ := strconv.Unquote(x.Args[0].(*ast.BasicLit).Value)
		t := vc.eng.typeByString(ts)
		if t == nil || !isStruct(t) {
			specErr("mk: unknown struct type %q", ts)
		}
		vc.te.sortOf(t)
		var as []string
		for _, a := range x.Args[1:] {
			as = append(as, env.rv(env.eval(a)).t)
		}
		if len(as) != t.Underlying().(*types.Struct).NumFields() {
			specErr("mk(%s): wrong number of fields", ts)
		}
		return Val{t: app(vc.te.structCtor(t), as...), typ: t}
	case "visited": // ghost: visited(k) - the map range of this loop has produced key k in an earlier iteration
		if env.seen == "" {
			specErr("visited() outside the clauses of a map-range loop")
		}
		k := env.rv(env.eval(x.Args[0]))
		srt := LocInfo{Kind: "SEEN", Key: env.seenK}.sort(vc.te)
		return Val{t: app("select", vc.he.get(env.st, env.seen, srt), k.t), typ: boolT}
	case "called": // ghost: a direct call of that callee has been executed since entry, called(Name)
		nm := exprText(x.Args[0])
		return Val{t: vc.he.get(env.st, calledLoc(nm), "Bool"), typ: boolT}
	case "mapwrites": // ghost: writes to a package-level map since function entry, mapwrites(pkg.Global)
		sel, ok := x.Args[0].(*ast.SelectorExpr)
		if !ok {
			specErr("mapwrites needs pkg.Global")
		}
		g := sel.X.(*ast.Ident).Name + "." + sel.Sel.Name
		cur := vc.he.get(env.st, mapWritesLoc(g), "Int")
		ent := vc.he.get(vc.entry, mapWritesLoc(g), "Int")
		return Val{t: app("-", cur, ent), typ: intT}
	case "nlwritten": // ghost: newline bytes written to a strings.Builder (argument: the builder variable)
		v := env.rv(env.eval(x.Args[0]))
		return env.inState(func() Val {
			return Val{t: f.readAddr(&Addr{kind: "C", loc: builderNLLoc, li: LocInfo{Kind: "C", Val: intT}, ref: v.t}), typ: intT}
		})
	case "cntnl": // cntnl(s, from): number of '\n' elements in s[from:] (uninterpreted, unfolded once at `from`)
		v := env.rv(env.eval(x.Args[0]))
		from := env.rv(env.eval(x.Args[1]))
		st, ok := v.typ.Underlying().(*types.Slice)
		if !ok || isStruct(st.Elem()) {
			specErr("cntnl on %s", v.typ)
		}
		l, li := locElem(st.Elem())
		return env.inState(func() Val {
			arr, off, ln, _ := sliceParts(v.t)
			row := app("select", vc.he.get(f.cur, l, li.sort(vc.te)), arr)
			return Val{t: vc.cntNL(row, app("+", off, from.t), app("+", off, ln)), typ: intT}
		})
	case "selfcall": // the function under verification applied to other arguments (pure functions only)
		var args []Val
		for _, a := range x.Args {
			args = append(args, env.rv(env.eval(a)))
		}
		self := vc.top
		if env.self != nil {
			self = env.self // a callee's postcondition assumed at a call site speaks about the callee
		}
		return env.pureCallBody(self, args)
	case "offof": // offset of a slice inside its backing array
		v := env.rv(env.eval(x.Args[0]))
		return Val{t: app("s_off", v.t), typ: intT}
	case "absat": // absat(s, k): element at absolute index k of the backing array of s (non-struct elements)
		v := env.rv(env.eval(x.Args[0]))
		k := env.rv(env.eval(x.Args[1]))
		st, ok := v.typ.Underlying().(*types.Slice)
		if !ok || isStruct(st.Elem()) {
			specErr("absat on %s", v.typ)
		}
		l, li := locElem(st.Elem())
		return env.inState(func() Val {
			return Val{t: f.readAddr(&Addr{kind: "E", loc: l, li: li, ref: app("s_arr", v.t), idx: k.t}), typ: st.Elem()}
		})
	case "arrof": // backing-array reference of a slice (0 for a nil slice)
		v := env.rv(env.eval(x.Args[0]))
		return Val{t: app("s_arr", v.t), typ: intT}
	case "isnil":
		v := env.rv(env.eval(x.Args[0]))
		switch v.typ.Underlying().(type) {
		case *types.Interface:
			return Val{t: eq(app("i_tag", v.t), "0"), typ: boolT}
		case *types.Slice:
			return Val{t: eq(app("s_arr", v.t), "0"), typ: boolT}
		}
		return Val{t: eq(v.t, "0"), typ: boolT}
	case "unbox": // unbox(x, "go type"): payload of an interface value as that type
		v := env.rv(env.eval(x.Args[0]))
		ts, _ := strconv.Unquote(x.Args[1].(*ast.BasicLit).Value)
		t := vc.eng.typeByString(ts)
		if t == nil {
			specErr("unknown type %q", ts)
		}
		return Val{t: vc.te.unbox(t, app("i_val", v.t)), typ: t}
	case "unboxint": // integer payload of an interface value
		v := env.rv(env.eval(x.Args[0]))
		return Val{t: app("i_val", v.t), typ: intT}
	case "int", "rune", "int64":
		return env.rv(env.eval(x.Args[0]))
	}
	if sf, ok := vc.eng.specFuncs[name]; ok {
		if env.depth > 20 {
			specErr("spec function recursion in %s", name)
		}
		if len(sf.Params) != len(x.Args) {
			specErr("spec %s: wrong number of arguments", name)
		}
		inner := &SpecEnv{f: f, vars: map[string]Val{}, st: env.st, old: env.old, result: env.result, pkg: sf.Pkg, depth: env.depth + 1, self: env.self}
		for i, p := range sf.Params {
			inner.vars[p] = env.eval(x.Args[i])
		}
		if sf.Opaque && currentTopPkg != sf.Pkg && !vc.eng.transparent[name] {
			return inner.opaqueApp(sf)
		}
		return inner.eval(sf.Body)
	}
	// pure Go function of the program
	if p := vc.eng.prog.ImportedPackage(pkg); p != nil {
		if fn := p.Func(name); fn != nil {
			var args []Val
			for _, a := range x.Args {
				args = append(args, env.rv(env.eval(a)))
			}
			return env.pureCall(fn, args)
		}
	}
	for _, pp := range vc.eng.modulePkgs() {
		if p := vc.eng.prog.ImportedPackage(pp); p != nil {
			if fn := p.Func(name); fn != nil {
				var args []Val
				for _, a := range x.Args {
					args = append(args, env.rv(env.eval(a)))
				}
				return env.pureCall(fn, args)
			}
		}
	}
	specErr("unknown function %s (package %s)", name, pkg)
	return Val{}
}

func (e *Engine) modulePkgs() []string {
	if e.modPkgs == nil {
		for _, p := range e.prog.AllPackages() {
			if isModPath(p.Pkg.Path()) {
				e.modPkgs = append(e.modPkgs, p.Pkg.Path())
			}
		}
		sort.Strings(e.modPkgs)
	}
	return e.modPkgs
}

func (env *SpecEnv) methodCall(recv Val, name string, argExprs []ast.Expr) Val {
	vc := env.f.vc
	recv = env.rv(recv)
	t := recv.typ
	ms := vc.eng.prog.MethodSets.MethodSet(t)
	var sel *types.Selection
	for i := 0; i < ms.Len(); i++ {
		if ms.At(i).Obj().Name() == name {
			sel = ms.At(i)
		}
	}
	if sel == nil {
		if _, isPtr := t.Underlying().(*types.Pointer); !isPtr {
			specErr("method %s on non-addressable %s", name, t)
		}
		specErr("no method %s on %s", name, t)
	}
	fn := vc.eng.prog.MethodValue(sel)
	args := []Val{recv}
	for _, a := range argExprs {
		args = append(args, env.rv(env.eval(a)))
	}
	return env.pureCall(fn, args)
}

func (env *SpecEnv) pureCall(fn *ssa.Function, args []Val) Val {
	f := env.f
	return env.inState(func() Val {
		// nil arguments
		for i := range args {
			if args[i].t == "nil" && i < len(fn.Params) {
				args[i] = Val{t: f.vc.te.zero(fn.Params[i].Type()), typ: fn.Params[i].Type()}
			}
		}
		res, term := f.callFunction(fn, args, nil, nil, token.NoPos)
		if term {
			specErr("pure call to %s does not return", fn)
		}
		return res
	})
}
