package main

// SMT script construction and solver invocation.
//
// A Script is an ordered list of commands produced while a function is
// symbolically executed: declarations, definitions (define-fun), assumptions
// (assert) and obligations.  One obligation = one satisfiability query: the
// prefix of the script up to the obligation, plus the negated goal.

import (
	"bytes"
	"context"
	"fmt"
	"go/ast"
	"os"
	"os/exec"
	"path/filepath"
	"sort"
	"strings"
	"sync"
	"time"

	"golang.org/x/tools/go/ssa"
)

const (
	cDeclSort = iota // datatype declarations (hoisted)
	cDecl            // declare-fun / declare-const (hoisted)
	cDef             // define-fun name () sort body
	cAssume          // assert body
	cOblig           // obligation: prove body from prefix
)

type Cmd struct {
	kind int
	name string // symbol defined/declared (cDecl, cDef)
	text string // full SMT command for decl/def/assume; goal term for cOblig
	ob   *Obligation
	syms []string // axioms: included when one of these symbols is needed
	blk  *ssa.BasicBlock // block of the function under verification at which a path-guarded assumption was made (nil: global fact)
}

// can control reach block b from block a (a == b included)?  Memoised per source block.
var blockReachMemo = map[*ssa.BasicBlock]map[*ssa.BasicBlock]bool{}
var blockReachMu sync.Mutex
var reachSlice = os.Getenv("VERIF_REACHSLICE") != ""

func blockReaches(a, b *ssa.BasicBlock) bool {
	if a == b {
		return true
	}
	if a.Parent() != b.Parent() {
		return true // different functions: no claim
	}
	blockReachMu.Lock() // queries are rendered from several goroutines
	defer blockReachMu.Unlock()
	r, ok := blockReachMemo[a]
	if !ok {
		r = map[*ssa.BasicBlock]bool{a: true}
		work := []*ssa.BasicBlock{a}
		for len(work) > 0 {
			x := work[len(work)-1]
			work = work[:len(work)-1]
			for _, s := range x.Succs {
				if !r[s] {
					r[s] = true
					work = append(work, s)
				}
			}
		}
		blockReachMemo[a] = r
	}
	return r[b]
}

type Obligation struct {
	Name     string // pkg.Func/kind#n
	Kind     string
	Func     string
	Goal     string // SMT term to prove (already guarded by reachability)
	Desc     string // human description (Go source position / expression)
	Pos      string
	Claimed  bool              // counts towards the property (vs. informational)
	Tags     []string          // property tags of the originating clause (empty = all)
	Cover    bool              // vacuity check: goal must be SAT (reachable)
	ModelQ   []string          // terms to evaluate when a model is found
	ModelTag map[string]string // term -> role label for replay
	Alts     []string          // vacuity: alternative goals, any one of which suffices
	NoAx     bool              // vacuity retry: leave out the quantified background axioms (weaker check, noted in Solver)
	blk      *ssa.BasicBlock   // block of the function under verification where the obligation arises (nil: after the run)
	Clause   ast.Expr          // the contract clause (conjunct) behind a post obligation, for replay
	ClausePkg string
	idx      int               // position in script
	script   *Script

	// result
	Status  string // unsat | sat | unknown | timeout | error
	Solver  string
	Seconds float64
	Model   map[string]string
	Raw     string
}

type Script struct {
	cmds    []Cmd
	declSet map[string]bool
	nfresh  int
	obs     []*Obligation
	bytes   int
	curBlk  *ssa.BasicBlock // block of the function under verification being executed (nil outside the run)
}

func newScript() *Script {
	return &Script{declSet: map[string]bool{}}
}

func (s *Script) fresh(prefix string) string {
	s.nfresh++
	return fmt.Sprintf("|%s!%d|", sanitize(prefix), s.nfresh)
}

func sanitize(x string) string {
	x = strings.ReplaceAll(x, "|", "/")
	x = strings.ReplaceAll(x, "\\", "/")
	x = strings.ReplaceAll(x, "\n", " ")
	return x
}

func sym(x string) string { return "|" + sanitize(x) + "|" }

func (s *Script) declSort(name, text string) {
	if s.declSet["S:"+name] {
		return
	}
	s.declSet["S:"+name] = true
	s.cmds = append(s.cmds, Cmd{kind: cDeclSort, name: name, text: text})
}

// declare a function/constant once
func (s *Script) decl(name, text string) {
	if s.declSet[name] {
		return
	}
	s.declSet[name] = true
	s.cmds = append(s.cmds, Cmd{kind: cDecl, name: name, text: text})
}

func (s *Script) declConst(name, sort string) string {
	s.decl(name, fmt.Sprintf("(declare-fun %s () %s)", name, sort))
	return name
}

func (s *Script) freshConst(prefix, sort string) string {
	n := s.fresh(prefix)
	s.declConst(n, sort)
	return n
}

func (s *Script) define(prefix, sort, body string) string {
	// small bodies are returned as-is to keep scripts readable
	if len(body) < 24 && !strings.Contains(body, " ") {
		return body
	}
	if hasBound(body) {
		return body // mentions a quantifier-bound variable: cannot be named outside the quantifier
	}
	n := s.fresh(prefix)
	s.cmds = append(s.cmds, Cmd{kind: cDef, name: n, text: fmt.Sprintf("(define-fun %s () %s %s)", n, sort, body)})
	s.grow(len(body))
	return n
}

// VC size cap: a function whose verification conditions exceed it is reported out of subset
const maxScriptBytes = 400 << 20

func (s *Script) grow(n int) {
	s.bytes += n
	if s.bytes > maxScriptBytes {
		unsupported("verification conditions exceed %d MB", maxScriptBytes>>20)
	}
}

func (s *Script) assume(body string) {
	if body == "true" {
		return
	}
	s.cmds = append(s.cmds, Cmd{kind: cAssume, text: fmt.Sprintf("(assert %s)", body)})
	s.grow(len(body))
}

// a path-guarded assumption made while the function under verification is at block s.curBlk: a
// standalone query for an obligation at a block that this block cannot reach leaves it out (no
// execution passes through both, so the guard is false wherever the obligation's is true)
func (s *Script) assumeAt(body string) {
	if body == "true" {
		return
	}
	s.cmds = append(s.cmds, Cmd{kind: cAssume, text: fmt.Sprintf("(assert %s)", body), blk: s.curBlk})
	s.grow(len(body))
}

func (s *Script) oblige(ob *Obligation) {
	ob.idx = len(s.cmds)
	ob.script = s
	ob.blk = s.curBlk
	s.cmds = append(s.cmds, Cmd{kind: cOblig, text: ob.Goal, ob: ob, blk: s.curBlk})
	s.obs = append(s.obs, ob)
}

// ---- term helpers ----

func and(xs ...string) string {
	var ys []string
	for _, x := range xs {
		if x == "true" || x == "" {
			continue
		}
		if x == "false" {
			return "false"
		}
		ys = append(ys, x)
	}
	switch len(ys) {
	case 0:
		return "true"
	case 1:
		return ys[0]
	}
	return "(and " + strings.Join(ys, " ") + ")"
}

func or(xs ...string) string {
	var ys []string
	for _, x := range xs {
		if x == "false" || x == "" {
			continue
		}
		if x == "true" {
			return "true"
		}
		ys = append(ys, x)
	}
	switch len(ys) {
	case 0:
		return "false"
	case 1:
		return ys[0]
	}
	return "(or " + strings.Join(ys, " ") + ")"
}

func not(x string) string {
	if x == "true" {
		return "false"
	}
	if x == "false" {
		return "true"
	}
	if strings.HasPrefix(x, "(not ") && balanced(x[5:len(x)-1]) {
		return x[5 : len(x)-1]
	}
	return "(not " + x + ")"
}

func balanced(x string) bool {
	d := 0
	inq := false
	for i := 0; i < len(x); i++ {
		c := x[i]
		if c == '|' {
			inq = !inq
		}
		if inq {
			continue
		}
		if c == '(' {
			d++
		}
		if c == ')' {
			d--
			if d < 0 {
				return false
			}
		}
	}
	return d == 0
}

func implies(a, b string) string {
	if a == "true" {
		return b
	}
	if a == "false" || b == "true" {
		return "true"
	}
	return "(=> " + a + " " + b + ")"
}

func ite(c, a, b string) string {
	if c == "true" {
		return a
	}
	if c == "false" {
		return b
	}
	if a == b {
		return a
	}
	return "(ite " + c + " " + a + " " + b + ")"
}

func eq(a, b string) string {
	if a == b {
		return "true"
	}
	return "(= " + a + " " + b + ")"
}
func app(f string, args ...string) string {
	return "(" + f + " " + strings.Join(args, " ") + ")"
}
func num(n int64) string {
	if n < 0 {
		return fmt.Sprintf("(- %d)", -n)
	}
	return fmt.Sprintf("%d", n)
}

func smtString(x string) string {
	var b strings.Builder
	b.WriteByte('"')
	for i := 0; i < len(x); i++ {
		c := x[i]
		if c == '"' {
			b.WriteString(`""`)
		} else if c < 0x20 || c > 0x7e || c == '\\' {
			fmt.Fprintf(&b, "\\u{%x}", c)
		} else {
			b.WriteByte(c)
		}
	}
	b.WriteByte('"')
	return b.String()
}

// ---- rendering ----

const preamble = `(set-option :produce-models true)
(set-logic ALL)
`

// symbols mentioned in an SMT text (quoted |..| and plain identifiers)
func symbolsOf(text string, out map[string]bool) {
	i := 0
	for i < len(text) {
		c := text[i]
		switch {
		case c == '|':
			j := strings.IndexByte(text[i+1:], '|')
			if j < 0 {
				return
			}
			out[text[i:i+j+2]] = true
			i += j + 2
		case c == '"':
			j := i + 1
			for j < len(text) {
				if text[j] == '"' {
					if j+1 < len(text) && text[j+1] == '"' {
						j += 2
						continue
					}
					break
				}
				j++
			}
			i = j + 1
		case c == '(' || c == ')' || c == ' ' || c == '\n' || c == '\t':
			i++
		default:
			j := i
			for j < len(text) && !strings.ContainsRune("() \n\t|\"", rune(text[j])) {
				j++
			}
			out[text[i:j]] = true
			i = j
		}
	}
}

// render a standalone query for obligation ob, sliced to the definitions it needs.
func (s *Script) render(ob *Obligation, extra []string, getValues []string) string {
	prefix := s.cmds[:ob.idx]
	need := map[string]bool{}
	goal := ob.Goal
	symbolsOf(goal, need)
	for _, e := range extra {
		symbolsOf(e, need)
	}
	for _, g := range getValues {
		symbolsOf(g, need)
	}
	// assumptions: all included; closure over definitions backwards
	include := make([]bool, len(prefix))
	for i := len(prefix) - 1; i >= 0; i-- {
		c := prefix[i]
		if reachSlice && c.blk != nil && ob.blk != nil && !ob.Cover && (c.kind == cAssume || c.kind == cOblig) && !blockReaches(c.blk, ob.blk) {
			// (experimental, off by default: some facts that later blocks rely on are emitted once, at
			// the block that first needs them, so dropping by block loses proofs)
			continue // made on a path that cannot lead to this obligation
		}
		switch c.kind {
		case cAssume:
			if ob.Cover && (strings.Contains(c.text, "(forall ") || strings.Contains(c.text, "(exists ")) {
				// vacuity checks ignore quantified assumptions: a solver cannot return `sat` in their
				// presence.  (They are invariants over tables, satisfiable by empty tables.)
				continue
			}
			include[i] = true
			symbolsOf(c.text, need)
		case cOblig:
			// earlier obligations are assumed (checked separately)
			// (vacuity queries do not need them: proved obligations are consequences of the rest)
			if !c.ob.Cover && !ob.Cover {
				include[i] = true
				symbolsOf(c.text, need)
			}
		case cDef:
			if need[c.name] {
				include[i] = true
				symbolsOf(c.text, need)
			}
		}
	}
	var b bytes.Buffer
	b.WriteString(preamble)
	// all sort declarations and the needed function declarations (whole script: decls are hoisted)
	for _, c := range s.cmds {
		if c.kind == cDeclSort {
			b.WriteString(c.text)
			b.WriteByte('\n')
		}
	}
	// axioms: included when a trigger symbol is needed; their symbols become needed too
	axIn := map[string]bool{}
	for changed := true; changed; {
		changed = false
		for _, c := range s.cmds {
			if c.kind != cDecl || !strings.HasPrefix(c.name, "axiom:") || axIn[c.name] {
				continue
			}
			hit := len(c.syms) == 0
			for _, y := range c.syms {
				if need[y] {
					hit = true
				}
			}
			if hit {
				axIn[c.name] = true
				symbolsOf(c.text, need)
				changed = true
			}
		}
	}
	for _, c := range s.cmds {
		if c.kind != cDecl {
			continue
		}
		if strings.HasPrefix(c.name, "axiom:") {
			continue
		}
		if need[c.name] {
			b.WriteString(c.text)
			b.WriteByte('\n')
		}
	}
	for _, c := range s.cmds {
		if c.kind == cDecl && axIn[c.name] {
			if ob.Cover && ob.NoAx && strings.Contains(c.text, "(forall ") {
				continue
			}
			b.WriteString(c.text)
			b.WriteByte('\n')
		}
	}
	for i, c := range prefix {
		if !include[i] {
			continue
		}
		switch c.kind {
		case cDef, cAssume:
			b.WriteString(c.text)
		case cOblig:
			b.WriteString("(assert " + c.text + ")")
		}
		b.WriteByte('\n')
	}
	for _, e := range extra {
		b.WriteString("(assert " + e + ")\n")
	}
	if ob.Cover {
		b.WriteString("(assert " + goal + ")\n")
	} else {
		b.WriteString("(assert (not " + goal + "))\n")
	}
	b.WriteString("(check-sat)\n")
	if len(getValues) > 0 {
		b.WriteString("(get-value (" + strings.Join(getValues, " ") + "))\n")
	}
	return b.String()
}

// Axiom declarations need their symbols declared first: we hoist decls in
// creation order, and axioms are registered via declAxiom after their symbols.
func (s *Script) declAxiom(key, body string, syms ...string) {
	name := "axiom:" + key
	if s.declSet[name] {
		return
	}
	s.declSet[name] = true
	s.cmds = append(s.cmds, Cmd{kind: cDecl, name: name, text: "(assert " + body + ")", syms: syms})
}

// ---- solvers ----

type solverSpec struct {
	name string
	argv func(file string, timeoutMs int) []string
}

var solvers = []solverSpec{
	{"z3-5.1.0", func(f string, t int) []string { return []string{"z3-new", fmt.Sprintf("-t:%d", t), f} }},
	{"z3-4.8.12", func(f string, t int) []string { return []string{"z3", fmt.Sprintf("-t:%d", t), f} }},
	{"cvc5-1.0", func(f string, t int) []string {
		return []string{"cvc5", "--strings-exp", fmt.Sprintf("--tlimit=%d", t), "--produce-models", f}
	}},
	// E-matching only: decides quantified goals whose triggers are explicit in a fraction of a second
	// and answers `unknown` (never a wrong `sat`) otherwise
	{"z3-5.1.0-ematch", func(f string, t int) []string {
		return []string{"z3-new", fmt.Sprintf("-t:%d", t), "smt.auto_config=false", "smt.mbqi=false", f}
	}},
}

type solveResult struct {
	status string
	solver string
	secs   float64
	out    string
}

func runSolver(sp solverSpec, file string, timeoutMs int) solveResult {
	ctx, cancel := context.WithTimeout(context.Background(), time.Duration(timeoutMs+3000)*time.Millisecond)
	defer cancel()
	argv := sp.argv(file, timeoutMs)
	cmd := exec.CommandContext(ctx, argv[0], argv[1:]...)
	var out bytes.Buffer
	cmd.Stdout = &out
	cmd.Stderr = &out
	t0 := time.Now()
	_ = cmd.Run()
	secs := time.Since(t0).Seconds()
	o := out.String()
	first := ""
	for _, ln := range strings.Split(o, "\n") {
		ln = strings.TrimSpace(ln)
		if ln == "sat" || ln == "unsat" || ln == "unknown" || ln == "timeout" {
			first = ln
			break
		}
	}
	st := "error"
	switch {
	case first == "unsat":
		st = "unsat"
	case first == "sat":
		st = "sat"
	case first == "unknown" || first == "timeout":
		st = "unknown"
	case ctx.Err() != nil:
		st = "timeout"
	case strings.Contains(o, "timeout") || strings.Contains(o, "interrupted"):
		st = "timeout"
	}
	return solveResult{st, sp.name, secs, o}
}

type SolveOpts struct {
	TimeoutMs int
	AllSolvers bool // thorough: run all solvers, disagreement = error
	Single    bool // scan: z3-new only
	NoBatch   bool
	preload   string // witness runs: source of a preloaded file
	Dir       string
	Seed      int
}

var solverTime struct {
	sync.Mutex
	total float64
	by    map[string]float64
	wins  map[string]int
}

func noteSolve(r solveResult) {
	solverTime.Lock()
	defer solverTime.Unlock()
	if solverTime.by == nil {
		solverTime.by = map[string]float64{}
		solverTime.wins = map[string]int{}
	}
	solverTime.total += r.secs
	solverTime.by[r.solver] += r.secs
	if r.status == "unsat" || r.status == "sat" {
		solverTime.wins[r.solver]++
	}
}

// solve one query text: z3-new first, then race the others.
func solveText(text string, file string, o SolveOpts) solveResult {
	if err := os.WriteFile(file, []byte(text), 0o644); err != nil {
		return solveResult{status: "error", out: err.Error()}
	}
	if o.AllSolvers {
		res := make([]solveResult, len(solvers))
		var wg sync.WaitGroup
		for i, sp := range solvers {
			wg.Add(1)
			go func(i int, sp solverSpec) {
				defer wg.Done()
				res[i] = runSolver(sp, file, o.TimeoutMs)
				noteSolve(res[i])
			}(i, sp)
		}
		wg.Wait()
		var dec *solveResult
		for i := range res {
			r := &res[i]
			if r.status == "sat" || r.status == "unsat" {
				if dec != nil && dec.status != r.status {
					return solveResult{status: "error", solver: "disagreement", out: dec.solver + "=" + dec.status + " " + r.solver + "=" + r.status}
				}
				if dec == nil {
					dec = r
				}
			}
		}
		if dec != nil {
			return *dec
		}
		return res[0]
	}
	quick := o.TimeoutMs
	if quick > 4000 {
		quick = 4000
	}
	if o.Single {
		quick = o.TimeoutMs
	}
	if !o.Single && strings.Contains(text, "(forall (") {
		if re := runSolver(solvers[len(solvers)-1], file, quick); re.status == "unsat" {
			noteSolve(re)
			return re
		}
	}
	r := runSolver(solvers[0], file, quick)
	noteSolve(r)
	if r.status == "sat" || r.status == "unsat" || o.Single {
		return r
	}
	// race all three with the full timeout
	ch := make(chan solveResult, len(solvers))
	for _, sp := range solvers {
		go func(sp solverSpec) {
			rr := runSolver(sp, file, o.TimeoutMs)
			noteSolve(rr)
			ch <- rr
		}(sp)
	}
	var last solveResult
	for range solvers {
		rr := <-ch
		if rr.status == "sat" || rr.status == "unsat" {
			return rr
		}
		last = rr
	}
	return last
}

func parseGetValue(out string) map[string]string {
	// output after the first line: ((term value) (term value) ...)
	m := map[string]string{}
	i := strings.Index(out, "((")
	if i < 0 {
		return m
	}
	s := out[i+1:]
	// iterate over top-level (term value) pairs
	for len(s) > 0 {
		s = strings.TrimLeft(s, " \n\t")
		if len(s) == 0 || s[0] != '(' {
			break
		}
		end := matchParen(s, 0)
		if end < 0 {
			break
		}
		pair := s[1:end]
		// split into term and value: term is the first s-expression
		pair = strings.TrimSpace(pair)
		var tend int
		if pair[0] == '(' {
			tend = matchParen(pair, 0) + 1
		} else if pair[0] == '|' {
			tend = strings.IndexByte(pair[1:], '|') + 2
		} else {
			tend = strings.IndexAny(pair, " \n\t")
		}
		if tend <= 0 || tend > len(pair) {
			break
		}
		m[strings.TrimSpace(pair[:tend])] = strings.TrimSpace(pair[tend:])
		s = s[end+1:]
	}
	return m
}

func matchParen(s string, start int) int {
	d := 0
	inq, instr := false, false
	for i := start; i < len(s); i++ {
		c := s[i]
		if instr {
			if c == '"' {
				instr = false
			}
			continue
		}
		if inq {
			if c == '|' {
				inq = false
			}
			continue
		}
		switch c {
		case '"':
			instr = true
		case '|':
			inq = true
		case '(':
			d++
		case ')':
			d--
			if d == 0 {
				return i
			}
		}
	}
	return -1
}

func (s *Script) hasBoundQuantifiers() bool {
	// struct-slice quantifiers with explicit triggers (see triggers.go) mark the script
	return s.declSet["qarr:used"]
}

// solve all obligations with a worker pool
func solveAll(obs []*Obligation, o SolveOpts) {
	// first pass: one incremental process per function (only its `unsat` answers are kept)
	if !o.AllSolvers && !o.NoBatch {
		byScript := map[*Script][]*Obligation{}
		var scripts []*Script
		for _, ob := range obs {
			if ob.script == nil {
				continue
			}
			if _, seen := byScript[ob.script]; !seen {
				scripts = append(scripts, ob.script)
			}
			byScript[ob.script] = append(byScript[ob.script], ob)
		}
		var bw sync.WaitGroup
		sem := make(chan struct{}, 16)
		for i, sc := range scripts {
			if len(byScript[sc]) < 4 || sc.hasBoundQuantifiers() {
				// (quantified specifications: the incremental mode mostly times out on them, while the
				// sliced standalone queries are decided by E-matching in a fraction of a second)
				continue
			}
			bw.Add(1)
			sem <- struct{}{}
			go func(i int, sc *Script) {
				defer bw.Done()
				defer func() { <-sem }()
				solveBatch(sc, byScript[sc], o, i)
			}(i, sc)
		}
		bw.Wait()
		var rest []*Obligation
		for _, ob := range obs {
			if ob.Status != "unsat" || ob.Cover {
				rest = append(rest, ob)
			}
		}
		obs = rest
	}
	var wg sync.WaitGroup
	ch := make(chan *Obligation)
	for w := 0; w < 16; w++ {
		wg.Add(1)
		go func(w int) {
			defer wg.Done()
			for ob := range ch {
				solveOb(ob, o)
			}
		}(w)
	}
	for _, ob := range obs {
		ch <- ob
	}
	close(ch)
	wg.Wait()
}

func obFile(dir string, ob *Obligation) string {
	n := strings.NewReplacer("/", "_", "(", "", ")", "", "*", "", "#", "_", " ", "_", "$", "_").Replace(ob.Name)
	return filepath.Join(dir, n+".smt2")
}

func solveOb(ob *Obligation, o SolveOpts) {
	if os.Getenv("VERIF_SLOW") != "" {
		t0 := time.Now()
		defer func() {
			if d := time.Since(t0).Seconds(); d > 5 {
				fmt.Printf("wall: %.1fs %s %s [%s]\n", d, ob.Name, ob.Status, ob.Solver)
			}
		}()
	}
	if ob.Cover && len(ob.Alts) > 0 {
		// vacuity: it is enough that ONE of the alternatives (e.g. one return) is reachable; try them
		// one at a time, simplest first, instead of their disjunction
		full := ob.Goal
		// A solver cannot answer `sat` in the presence of the quantified background axioms
		// (injectivity of interior references, owner function): when the script has any, the
		// alternatives are first tried without them (a weaker check, noted in the solver name) and
		// only then with them.  Each attempt is short: a reachable return is found at once or not at all.
		quick := o
		if quick.TimeoutMs > 3000 {
			quick.TimeoutMs = 3000
		}
		quick.Single = true
		hasAx := false
		for _, c := range ob.script.cmds {
			if c.kind == cDecl && strings.HasPrefix(c.name, "axiom:") && strings.Contains(c.text, "(forall ") {
				hasAx = true
			}
		}
		try := func(noAx bool, opts SolveOpts) bool {
			ob.NoAx = noAx
			for _, alt := range ob.Alts {
				ob.Goal = alt
				r := solveText(ob.script.render(ob, nil, nil), obFile(o.Dir, ob), opts)
				ob.Status, ob.Solver, ob.Seconds, ob.Raw = r.status, r.solver, r.secs, r.out
				if r.status == "sat" {
					if noAx && hasAx {
						ob.Solver += " (without quantified axioms)"
					}
					return true
				}
			}
			return false
		}
		if !(hasAx && try(true, quick)) && !try(false, quick) {
			if !(hasAx && try(true, o)) {
				try(false, o)
			}
		}
		ob.Goal = full
		return
	}
	text := ob.script.render(ob, nil, nil)
	if !ob.Cover && !o.Single && ob.script.hasBoundQuantifiers() && iteCondRe.MatchString(text) {
		// quantified struct-slice specifications over merged states: the per-case queries are the
		// ones E-matching decides at once, so they go first
		o1 := o
		if o1.TimeoutMs > 5000 {
			o1.TimeoutMs = 5000
		}
		if rs, ok := solveByCases(ob, text, o1); ok {
			ob.Status, ob.Solver, ob.Seconds, ob.Raw = rs.status, rs.solver, rs.secs, rs.out
			return
		}
	}
	r := solveText(text, obFile(o.Dir, ob), o)
	if ob.Cover && r.status != "sat" && r.status != "unsat" {
		// a vacuity check that ran out of time under load is retried once with a longer limit
		// first without the quantified background axioms (they keep a solver from answering `sat`;
		// a weaker check, noted in the solver name), then once more with a longer limit
		ob.NoAx = true
		rn := solveText(ob.script.render(ob, nil, nil), obFile(o.Dir, ob), o)
		if rn.status == "sat" {
			rn.solver += " (without quantified axioms)"
			r = rn
		} else {
			ob.NoAx = false
			o2 := o
			o2.TimeoutMs = o.TimeoutMs * 4
			r = solveText(text, obFile(o.Dir, ob), o2)
		}
	}
	if !ob.Cover && r.status != "sat" && r.status != "unsat" {
		// undecided: split on the conditions of the most recent state merges (E-matching does not
		// case-split on an if-then-else between two heaps by itself); unsat in every case = unsat
		if rs, ok := solveByCases(ob, text, o); ok {
			r = rs
		}
	}
	if !ob.Cover && r.status == "timeout" && !o.AllSolvers && !o.Single {
		// ran out of time (a loaded machine makes the 10 s of the quick tier short): one more attempt
		// with three times the limit before the obligation is reported as undecided
		o3 := o
		o3.TimeoutMs = o.TimeoutMs * 3
		if r3 := solveText(text, obFile(o.Dir, ob), o3); r3.status == "sat" || r3.status == "unsat" {
			r = r3
		} else if rs, ok := solveByCases(ob, text, o3); ok {
			r = rs
		}
	}
	ob.Status, ob.Solver, ob.Seconds, ob.Raw = r.status, r.solver, r.secs, r.out
	if ob.Cover {
		// cover obligations want SAT
		return
	}
	if r.status == "sat" && len(ob.ModelQ) > 0 {
		// re-run asking for the values (with small-model caps tried first by the caller)
		text = ob.script.render(ob, nil, ob.ModelQ)
		rr := solveText(text, obFile(o.Dir, ob)+".model.smt2", o)
		if rr.status == "sat" {
			ob.Model = parseGetValue(rr.out)
			ob.Raw = rr.out
		}
	}
}

func sortedKeys[V any](m map[string]V) []string {
	var ks []string
	for k := range m {
		ks = append(ks, k)
	}
	sort.Strings(ks)
	return ks
}
