package main

// Models of functions outside the module (assumption A2).  Everything not
// listed is treated as: no effect on the program's heap, fresh result.

import (
	"fmt"
	"go/token"
	"go/types"
	"strings"

	"golang.org/x/tools/go/ssa"
)

var usedAxioms = map[string]bool{}

func (vc *VC) unicodePred(name string) string {
	fn := "unicode." + name
	usedAxioms["A2:"+fn] = true
	vc.sc.decl(fn, fmt.Sprintf("(declare-fun %s (Int) Bool)", fn))
	var body string
	switch name {
	case "IsSpace":
		body = "(or (and (>= c 9) (<= c 13)) (= c 32) (= c 133) (= c 160))"
		vc.sc.declAxiom(fn, fmt.Sprintf("(forall ((c Int)) (! (=> (and (>= c 0) (< c 256)) (= (%s c) %s)) :pattern ((%s c))))", fn, body, fn), fn)
		return fn
	case "IsDigit":
		body = "(and (>= c 48) (<= c 57))"
	case "IsUpper":
		body = "(and (>= c 65) (<= c 90))"
	case "IsLower":
		body = "(and (>= c 97) (<= c 122))"
	case "IsLetter":
		body = "(or (and (>= c 65) (<= c 90)) (and (>= c 97) (<= c 122)))"
	default:
		return fn
	}
	vc.sc.declAxiom(fn, fmt.Sprintf("(forall ((c Int)) (! (=> (and (>= c 0) (< c 128)) (= (%s c) %s)) :pattern ((%s c))))", fn, body, fn), fn)
	return fn
}

func (f *Frame) external(fn *ssa.Function, args []Val, c *ssa.CallCommon, pos token.Pos) (Val, bool) {
	vc := f.vc
	name := fn.String()
	if o := fn.Origin(); o != nil {
		name = o.String()
	}
	boolT := types.Typ[types.Bool]
	strT := types.Typ[types.String]
	intT := types.Typ[types.Int]
	sig := fn.Signature
	a := func(i int) string { return f.materialize(args[i]) }
	switch name {
	case "unicode.IsSpace", "unicode.IsDigit", "unicode.IsUpper", "unicode.IsLower", "unicode.IsLetter":
		p := vc.unicodePred(strings.TrimPrefix(name, "unicode."))
		return Val{t: app(p, a(0)), typ: boolT}, false
	case "strings.Contains":
		return Val{t: app("str.contains", a(0), a(1)), typ: boolT}, false
	case "strings.HasPrefix":
		return Val{t: app("str.prefixof", a(1), a(0)), typ: boolT}, false
	case "strings.HasSuffix":
		return Val{t: app("str.suffixof", a(1), a(0)), typ: boolT}, false
	case "strings.TrimPrefix":
		s, p := a(0), a(1)
		return Val{t: vc.sc.define("trimprefix", "String", ite(app("str.prefixof", p, s), app("str.substr", s, app("str.len", p), app("-", app("str.len", s), app("str.len", p))), s)), typ: strT}, false
	case "strings.TrimSuffix":
		s, p := a(0), a(1)
		return Val{t: vc.sc.define("trimsuffix", "String", ite(app("str.suffixof", p, s), app("str.substr", s, "0", app("-", app("str.len", s), app("str.len", p))), s)), typ: strT}, false
	case "strings.Count":
		r := vc.sc.freshConst("strings.Count", "Int")
		f.assume(app(">=", r, "0"))
		usedAxioms["A2:strings.Count>=0"] = true
		return Val{t: r, typ: intT}, false
	case "strings.Index":
		return Val{t: app("str.indexof", a(0), a(1), "0"), typ: intT}, false
	case "strings.Compare":
		x, y := a(0), a(1)
		return Val{t: ite(eq(x, y), "0", ite(app("str.<", x, y), "(- 1)", "1")), typ: intT}, false
	case "cmp.Compare":
		x, y := a(0), a(1)
		switch vc.te.sortOf(args[0].typ) {
		case "String":
			return Val{t: ite(eq(x, y), "0", ite(app("str.<", x, y), "(- 1)", "1")), typ: intT}, false
		case "Int", "Real":
			return Val{t: ite(eq(x, y), "0", ite(app("<", x, y), "(- 1)", "1")), typ: intT}, false
		}
	case "errors.New", "fmt.Errorf":
		r := vc.freshVal("error", sig.Results().At(0).Type())
		f.assume(app(">", app("i_tag", r.t), "0"))
		return r, false
	case "os.Exit":
		return Val{}, true
	case "(*strings.Builder).String":
		return vc.freshVal("builder.String", strT), false
	case "(*strings.Builder).Len":
		r := vc.freshVal("builder.Len", intT)
		f.assume(app(">=", r.t, "0"))
		return r, false
	case "strconv.Itoa":
		vc.sc.decl("strconv.Itoa", "(declare-fun strconv.Itoa (Int) String)")
		return Val{t: app("strconv.Itoa", a(0)), typ: strT}, false
	case "slices.Contains":
		return vc.freshVal("slices.Contains", boolT), false
	}
	if strings.HasPrefix(name, "fmt.Print") || strings.HasPrefix(name, "fmt.Fprint") {
		return vc.freshResult(f, sig.Results(), fn.Name()), false
	}
	// default: heap effect according to externalMod, fresh result
	if c != nil {
		m := externalMod(fn, c)
		for _, av := range c.Args {
			if mc, ok := av.(*ssa.MakeClosure); ok {
				m.union(vc.eng.modOf(mc.Fn.(*ssa.Function)))
			}
		}
		vc.he.havoc(f.cur, m)
	}
	usedAxioms["A6:external "+name+" (no heap effect, fresh result)"] = true
	return vc.freshResult(f, sig.Results(), fn.Name()), false
}
