package main

// Models of functions outside the module (assumption A2).  Everything not
// listed is treated as: no effect on the program's heap, fresh result.

import (
	"fmt"
	"go/token"
	"go/types"
	"strings"

	"golang.org/x/tools/go/ssa"
)

var usedAxioms = map[string]bool{}

// unicode predicates: uninterpreted, fixed on ASCII / Latin-1 by ground instances
func (vc *VC) unicodePred(name string, arg string) string {
	fn := "unicode." + name
	usedAxioms["A2:"+fn+" (uninterpreted; fixed on ASCII)"] = true
	vc.sc.decl(fn, fmt.Sprintf("(declare-fun %s (Int) Bool)", fn))
	var body string
	limit := "128"
	switch name {
	case "IsSpace":
		body = "(or (and (>= c 9) (<= c 13)) (= c 32) (= c 133) (= c 160))"
		limit = "256"
	case "IsDigit":
		body = "(and (>= c 48) (<= c 57))"
	case "IsUpper":
		body = "(and (>= c 65) (<= c 90))"
	case "IsLower":
		body = "(and (>= c 97) (<= c 122))"
	case "IsLetter":
		body = "(or (and (>= c 65) (<= c 90)) (and (>= c 97) (<= c 122)))"
	default:
		return app(fn, arg)
	}
	if hasBound(arg) {
		vc.sc.declAxiom(fn, fmt.Sprintf("(forall ((c Int)) (! (=> (and (>= c 0) (< c %s)) (= (%s c) %s)) :pattern ((%s c))))", limit, fn, body, fn), fn)
		return app(fn, arg)
	}
	c := vc.sc.define("uc", "Int", arg)
	inst := strings.ReplaceAll(body, " c ", " "+c+" ")
	inst = strings.ReplaceAll(inst, " c)", " "+c+")")
	key := "inst:" + fn + ":" + c
	if !vc.sc.declSet[key] {
		vc.sc.declSet[key] = true
		vc.sc.assume(fmt.Sprintf("(=> (and (>= %s 0) (< %s %s)) (= (%s %s) %s))", c, c, limit, fn, c, inst))
	}
	return app(fn, c)
}

func (f *Frame) external(fn *ssa.Function, args []Val, c *ssa.CallCommon, pos token.Pos) (Val, bool) {
	vc := f.vc
	name := fn.String()
	if o := fn.Origin(); o != nil {
		name = o.String()
	}
	boolT := types.Typ[types.Bool]
	strT := types.Typ[types.String]
	intT := types.Typ[types.Int]
	sig := fn.Signature
	a := func(i int) string { return f.materialize(args[i]) }
	switch name {
	case "unicode.IsSpace", "unicode.IsDigit", "unicode.IsUpper", "unicode.IsLower", "unicode.IsLetter":
		return Val{t: vc.unicodePred(strings.TrimPrefix(name, "unicode."), a(0)), typ: boolT}, false
	case "strings.Contains":
		return Val{t: app("str.contains", a(0), a(1)), typ: boolT}, false
	case "strings.HasPrefix":
		return Val{t: app("str.prefixof", a(1), a(0)), typ: boolT}, false
	case "strings.HasSuffix":
		return Val{t: app("str.suffixof", a(1), a(0)), typ: boolT}, false
	case "strings.TrimPrefix":
		s, p := a(0), a(1)
		return Val{t: vc.sc.define("trimprefix", "String", ite(app("str.prefixof", p, s), app("str.substr", s, app("str.len", p), app("-", app("str.len", s), app("str.len", p))), s)), typ: strT}, false
	case "strings.TrimSuffix":
		s, p := a(0), a(1)
		return Val{t: vc.sc.define("trimsuffix", "String", ite(app("str.suffixof", p, s), app("str.substr", s, "0", app("-", app("str.len", s), app("str.len", p))), s)), typ: strT}, false
	case "strings.Count":
		vc.sc.decl("strings.Count", "(declare-fun strings.Count (String String) Int)")
		r := app("strings.Count", a(0), a(1))
		if !hasBound(r) {
			key := "inst:" + r
			if !vc.sc.declSet[key] {
				vc.sc.declSet[key] = true
				vc.sc.assume(app(">=", r, "0"))
			}
		}
		usedAxioms["A2:strings.Count (uninterpreted function, >= 0)"] = true
		return Val{t: r, typ: intT}, false
	case "strings.Index":
		return Val{t: app("str.indexof", a(0), a(1), "0"), typ: intT}, false
	case "strings.Compare":
		x, y := a(0), a(1)
		return Val{t: ite(eq(x, y), "0", ite(app("str.<", x, y), "(- 1)", "1")), typ: intT}, false
	case "cmp.Compare":
		x, y := a(0), a(1)
		switch vc.te.sortOf(args[0].typ) {
		case "String":
			return Val{t: ite(eq(x, y), "0", ite(app("str.<", x, y), "(- 1)", "1")), typ: intT}, false
		case "Int", "Real":
			return Val{t: ite(eq(x, y), "0", ite(app("<", x, y), "(- 1)", "1")), typ: intT}, false
		}
	case "errors.New", "fmt.Errorf":
		r := vc.freshVal("error", sig.Results().At(0).Type())
		f.assume(app(">", app("i_tag", r.t), "0"))
		return r, false
	case "os.Exit":
		return Val{}, true
	case "(*strings.Builder).String", "(*strings.Builder).Len", "(*strings.Builder).WriteRune", "(*strings.Builder).WriteByte", "(*strings.Builder).WriteString", "(*strings.Builder).Write", "(*strings.Builder).Reset":
		// strings.Builder is modelled through its real field `buf []byte`: writes extend len(buf),
		// String() returns a string of that length (contents opaque).
		usedAxioms["A2:strings.Builder (len(String()) == bytes written; contents opaque)"] = true
		owner := sig.Recv().Type().Underlying().(*types.Pointer).Elem()
		st := owner.Underlying().(*types.Struct)
		bi := -1
		for i := 0; i < st.NumFields(); i++ {
			if st.Field(i).Name() == "buf" {
				bi = i
			}
		}
		if bi < 0 || args[0].addr != nil {
			break
		}
		l, li := locField(owner, bi)
		ad := &Addr{kind: "F", loc: l, li: li, ref: args[0].t}
		cur := vc.sc.define("builder.buf", sortSlice, f.readAddr(ad))
		f.assume(f.tinv(st.Field(bi).Type(), cur))
		curLen := app("s_len", cur)
		grow := func(k string) {
			nb := vc.sc.freshConst("builder.buf'", sortSlice)
			f.assume(f.tinv(st.Field(bi).Type(), nb))
			f.assume(eq(app("s_len", nb), app("+", curLen, k)))
			f.writeAddr(ad, nb)
		}
		// ghost: number of newline bytes written so far (not carried by by-value copies)
		gh := &Addr{kind: "C", loc: builderNLLoc, li: LocInfo{Kind: "C", Val: intT}, ref: args[0].t}
		addNL := func(k string) { f.writeAddr(gh, app("+", f.readAddr(gh), k)) }
		switch fn.Name() {
		case "String":
			r := vc.freshVal("builder.String", strT)
			f.assume(eq(app("str.len", r.t), curLen))
			vc.sc.decl("strings.Count", "(declare-fun strings.Count (String String) Int)")
			f.assume(eq(app("strings.Count", r.t, smtString("\n")), f.readAddr(gh)))
			return r, false
		case "Len":
			return Val{t: curLen, typ: intT}, false
		case "Reset":
			f.writeAddr(ad, "(mk_slice 0 0 0 0)")
			f.writeAddr(gh, "0")
			return Val{}, false
		case "WriteByte":
			grow("1")
			addNL(ite(eq(a(1), "10"), "1", "0"))
			return vc.freshResult(f, sig.Results(), fn.Name()), false
		case "WriteRune":
			k := vc.sc.freshConst("utf8len", "Int")
			f.assume(and(app(">=", k, "1"), app("<=", k, "4")))
			grow(k)
			addNL(ite(eq(a(1), "10"), "1", "0"))
			return vc.freshResult(f, sig.Results(), fn.Name()), false
		case "WriteString":
			grow(app("str.len", a(1)))
			vc.sc.decl("strings.Count", "(declare-fun strings.Count (String String) Int)")
			addNL(app("strings.Count", a(1), smtString("\n")))
			return vc.freshResult(f, sig.Results(), fn.Name()), false
		case "Write":
			grow(app("s_len", a(1)))
			return vc.freshResult(f, sig.Results(), fn.Name()), false
		}
	case "sort.Strings":
		if c != nil && len(args) == 1 && vc.te.sortOf(args[0].typ) == sortSlice {
			usedAxioms["A2:sort.Strings (result sorted ascending; permutation of the input assumed, not used)"] = true
			vc.he.havoc(f.cur, externalMod(fn, c))
			sl := args[0].t
			l, li := locElem(types.Typ[types.String])
			row := vc.sc.define("sorted.row", "(Array Int String)", app("select", vc.he.get(f.cur, l, li.sort(vc.te)), app("s_arr", sl)))
			off := app("s_off", sl)
			f.assume(fmt.Sprintf("(forall ((bv!!a Int) (bv!!b Int)) (=> (and (<= %s bv!!a) (< bv!!a bv!!b) (< bv!!b (+ %s (s_len %s)))) (str.<= (select %s bv!!a) (select %s bv!!b))))", off, off, sl, row, row))
			return Val{}, false
		}
	case "sort.Slice", "sort.SliceStable":
		// the elements are permuted (havoc) and end up sorted w.r.t. the given less function:
		// forall a < b: !less(b, a), with less evaluated on the post-state
		if c != nil && len(args) == 2 && args[1].fn != nil {
			usedAxioms["A2:sort.Slice (result sorted w.r.t. less; that it is a permutation of the input is assumed, not used)"] = true
			m := externalMod(fn, c)
			vc.he.havoc(f.cur, m)
			sl := vc.te.unboxSliceArg(args[0])
			if sl != "" {
				lessFn := args[1].fn
				vc.pure++
				saved := vc.stack
				savedReach := f.reach[f.curB]
				vc.stack = nil
				// quantify over absolute positions bv!!a < bv!!b of the backing array (plain select patterns)
				off := app("s_off", sl)
				res, term := f.inline(lessFn, []Val{{t: app("-", "bv!!b", off), typ: intT}, {t: app("-", "bv!!a", off), typ: intT}}, args[1].bind)
				vc.stack = saved
				f.reach[f.curB] = savedReach
				vc.pure--
				if !term && res.t != "" {
					f.assume(fmt.Sprintf("(forall ((bv!!a Int) (bv!!b Int)) (=> (and (<= %s bv!!a) (< bv!!a bv!!b) (< bv!!b (+ %s (s_len %s)))) (not %s)))", off, off, sl, res.t))
				}
			}
			return Val{}, false
		}
	case "strconv.Itoa":
		vc.sc.decl("strconv.Itoa", "(declare-fun strconv.Itoa (Int) String)")
		return Val{t: app("strconv.Itoa", a(0)), typ: strT}, false
	case "strings.ReplaceAll":
		// the SMT string theory has this function; the one fact contracts use about it is stated
		// explicitly: no occurrence of a non-empty `old` survives when `new` brings none back
		s, oldS, newS := a(0), a(1), a(2)
		usedAxioms["A2:strings.ReplaceAll (= str.replace_all; a one-character `old` that `new` does not contain does not occur in the result)"] = true
		r := vc.sc.define("replaceall", "String", app("str.replace_all", s, oldS, newS))
		f.assume(implies(and(not(eq(oldS, smtString(""))), eq(app("str.len", oldS), "1"), not(app("str.contains", newS, oldS))), not(app("str.contains", r, oldS))))
		return Val{t: r, typ: strT}, false
	case "strings.Split":
		// a fresh slice whose length is a function of the arguments: at least 1, exactly 1 iff the
		// (non-empty) separator does not occur, in which case the only part is the string itself
		vc.sc.decl("strings.SplitLen", "(declare-fun strings.SplitLen (String String) Int)")
		res := vc.freshResult(f, sig.Results(), "Split")
		s, sep := a(0), a(1)
		n := app("strings.SplitLen", s, sep)
		if !hasBound(n) {
			key := "inst:" + n
			if !vc.sc.declSet[key] {
				vc.sc.declSet[key] = true
				vc.sc.assume(and(app(">=", n, "1"), implies(not(eq(sep, smtString(""))), eq(eq(n, "1"), not(app("str.contains", s, sep))))))
			}
		}
		f.assume(eq(app("s_len", res.t), n))
		if st, ok := res.typ.Underlying().(*types.Slice); ok {
			l, li := locElem(st.Elem())
			row := app("select", vc.he.get(f.cur, l, li.sort(vc.te)), app("s_arr", res.t))
			f.assume(implies(eq(n, "1"), eq(app("select", row, app("s_off", res.t)), s)))
		}
		return res, false
	case "slices.Contains":
		r := vc.freshVal("slices.Contains", boolT)
		if st, ok := args[0].typ.Underlying().(*types.Slice); ok && !isStruct(st.Elem()) {
			// result <=> some element equals v (non-struct elements; absolute-index quantifier)
			l, li := locElem(st.Elem())
			arr, off, ln, _ := sliceParts(a(0))
			row := vc.sc.define("contains.row", "(Array Int "+vc.te.sortOf(st.Elem())+")", app("select", vc.he.get(f.cur, l, li.sort(vc.te)), arr))
			w := vc.sc.freshConst("contains.at", "Int")
			v := a(1)
			f.assume(implies(r.t, and(app("<=", off, w), app("<", w, app("+", off, ln)), eq(app("select", row, w), v))))
			f.assume(implies(not(r.t), fmt.Sprintf("(forall ((k Int)) (! (=> (and (<= %s k) (< k (+ %s %s))) (not (= (select %s k) %s))) :pattern ((select %s k))))", off, off, ln, row, v, row)))
		}
		return r, false
	}
	if strings.HasPrefix(name, "fmt.Print") || strings.HasPrefix(name, "fmt.Fprint") {
		// ghost output log: every print appends an opaque record (order matters)
		vc.sc.decl("outapp", "(declare-fun outapp (Int Int) Int)")
		tok := vc.sc.freshConst("printed", "Int")
		cur := vc.he.get(f.cur, outLoc, "Int")
		vc.he.set(f.cur, outLoc, "Int", app("outapp", cur, tok))
		return vc.freshResult(f, sig.Results(), fn.Name()), false
	}
	// default: heap effect according to externalMod, fresh result
	if c != nil {
		m := externalMod(fn, c)
		for _, av := range c.Args {
			if mc, ok := av.(*ssa.MakeClosure); ok {
				m.union(vc.eng.modOf(mc.Fn.(*ssa.Function)))
			}
		}
		vc.he.havoc(f.cur, m)
	}
	usedAxioms["A6:external "+name+" (no heap effect, fresh result)"] = true
	return vc.freshResult(f, sig.Results(), fn.Name()), false
}
