package main

// Replay of solver counterexamples on the real code: the model's entry state is
// turned into an in-package Go test that builds the inputs, calls the real
// function and observes panic / non-termination.  The test is injected with
// `go test -overlay`; nothing is written into the repository.

import (
	"encoding/json"
	"fmt"
	"go/types"
	"os"
	"os/exec"
	"path/filepath"
	"regexp"
	"strconv"
	"strings"
	"time"
)

const replayElems = 6

type modelItem struct {
	Path string // field path from the parameter, e.g. "reader.runes[2]"
	Term string
	Kind string // int bool string len nil
	Go   string // Go type of the leaf (for conversions)
	Val  string `json:",omitempty"`
}

type replayPlan struct {
	fn     string
	pkg    string
	params []replayParam
	items  []modelItem
	caps   []string
}

type replayParam struct {
	name string
	typ  types.Type
	root string // variable name in the generated test
}

// walk the entry state reachable from the parameters and collect the terms to evaluate
func (vc *VC) replayPlan() *replayPlan {
	f := vc.topFrame
	plan := &replayPlan{fn: vc.top.String()}
	if vc.top.Pkg != nil {
		plan.pkg = vc.top.Pkg.Pkg.Path()
	}
	env := &SpecEnv{f: f, vars: map[string]Val{}, st: vc.entry, old: vc.entry}
	for i, p := range vc.top.Params {
		root := fmt.Sprintf("p%d", i)
		plan.params = append(plan.params, replayParam{p.Name(), p.Type(), root})
		func() {
			defer func() { recover() }()
			vc.describe(plan, env, f.params[i], root, 0)
		}()
	}
	return plan
}

func (vc *VC) describe(plan *replayPlan, env *SpecEnv, v Val, path string, depth int) {
	if len(plan.items) > 400 {
		return
	}
	v = env.rv(v)
	switch t := v.typ.Underlying().(type) {
	case *types.Basic:
		k := "int"
		switch {
		case t.Info()&types.IsBoolean != 0:
			k = "bool"
		case t.Info()&types.IsString != 0:
			k = "string"
		case t.Info()&types.IsFloat != 0:
			k = "real"
		}
		plan.items = append(plan.items, modelItem{Path: path, Term: v.t, Kind: k, Go: types.TypeString(v.typ, nil)})
	case *types.Pointer:
		plan.items = append(plan.items, modelItem{Path: path, Term: eq(v.t, "0"), Kind: "nil"})
		if st, ok := t.Elem().Underlying().(*types.Struct); ok && depth < 2 {
			for i := 0; i < st.NumFields(); i++ {
				fv := env.field(v, st.Field(i).Name())
				nd := depth
				if _, isPtr := st.Field(i).Type().Underlying().(*types.Pointer); isPtr {
					nd = depth + 1
				}
				vc.describe(plan, env, fv, path+"."+st.Field(i).Name(), nd)
			}
		}
	case *types.Struct:
		for i := 0; i < t.NumFields(); i++ {
			fv := Val{t: app(vc.te.fieldSel(v.typ, i), v.t), typ: t.Field(i).Type()}
			vc.describe(plan, env, fv, path+"."+t.Field(i).Name(), depth)
		}
	case *types.Interface:
		// dynamic value of an interface: reproduced when it holds a string, an int64 or a float64
		strT := types.Typ[types.String]
		plan.items = append(plan.items, modelItem{Path: path, Term: eq(app("i_tag", v.t), fmt.Sprint(vc.te.tagOf(strT))), Kind: "iface-is-string"})
		plan.items = append(plan.items, modelItem{Path: path, Term: vc.te.unbox(strT, app("i_val", v.t)), Kind: "iface-string"})
		plan.items = append(plan.items, modelItem{Path: path, Term: eq(app("i_tag", v.t), fmt.Sprint(vc.te.tagOf(types.Typ[types.Int64]))), Kind: "iface-is-int64"})
		plan.items = append(plan.items, modelItem{Path: path, Term: app("i_val", v.t), Kind: "iface-int64"})
	case *types.Slice:
		ln := app("s_len", v.t)
		plan.items = append(plan.items, modelItem{Path: path, Term: ln, Kind: "len", Go: types.TypeString(v.typ, nil)})
		plan.caps = append(plan.caps, app("<=", ln, fmt.Sprint(replayElems)))
		if depth >= 2 {
			return
		}
		arr, off, _, _ := sliceParts(v.t)
		for i := 0; i < replayElems; i++ {
			pos := app("+", off, fmt.Sprint(i))
			if isStruct(t.Elem()) {
				if depth < 1 {
					vc.describe(plan, env, Val{t: vc.elemRef(arr, pos), typ: types.NewPointer(t.Elem())}, fmt.Sprintf("%s[%d]", path, i), depth+1)
				}
				continue
			}
			l, li := locElem(t.Elem())
			ev := env.inState(func() Val {
				return Val{t: env.f.readAddr(&Addr{kind: "E", loc: l, li: li, ref: arr, idx: pos}), typ: t.Elem()}
			})
			vc.describe(plan, env, ev, fmt.Sprintf("%s[%d]", path, i), depth+1)
		}
	}
}

var reIntVal = regexp.MustCompile(`^\(- (\d+)\)$`)

func goLiteral(it modelItem) (string, bool) {
	v := strings.TrimSpace(it.Val)
	switch it.Kind {
	case "int", "len":
		if m := reIntVal.FindStringSubmatch(v); m != nil {
			return "-" + m[1], true
		}
		if _, err := strconv.ParseInt(v, 10, 64); err == nil {
			return v, true
		}
	case "bool", "nil":
		if v == "true" || v == "false" {
			return v, true
		}
	case "string":
		if len(v) >= 2 && v[0] == '"' {
			return strconv.Quote(smtUnescape(v[1 : len(v)-1])), true
		}
	case "real":
		if strings.HasPrefix(v, "(/ ") {
			parts := strings.Fields(strings.Trim(v, "()/ "))
			if len(parts) == 2 {
				return parts[0] + "/" + parts[1], true
			}
		}
		if _, err := strconv.ParseFloat(v, 64); err == nil {
			return v, true
		}
	}
	return "", false
}

func smtUnescape(s string) string {
	s = strings.ReplaceAll(s, `""`, `"`)
	re := regexp.MustCompile(`\\u\{([0-9a-fA-F]+)\}`)
	return re.ReplaceAllStringFunc(s, func(m string) string {
		n, _ := strconv.ParseInt(re.FindStringSubmatch(m)[1], 16, 32)
		return string(rune(n))
	})
}

const replayHelpers = `
func vrField(v reflect.Value, name string) reflect.Value {
	for v.Kind() == reflect.Ptr {
		if v.IsNil() {
			v.Set(reflect.New(v.Type().Elem()))
		}
		v = v.Elem()
	}
	f := v.FieldByName(name)
	if !f.IsValid() {
		panic("verif replay: no field " + name)
	}
	return reflect.NewAt(f.Type(), unsafe.Pointer(f.UnsafeAddr())).Elem()
}

// vrAt resolves a path like "reader.runes[2]" starting from a pointer
func vrAt(root any, path string) reflect.Value {
	v := reflect.ValueOf(root)
	for _, part := range strings.Split(path, ".") {
		if part == "" {
			continue
		}
		name := part
		idx := -1
		if i := strings.Index(part, "["); i >= 0 {
			name = part[:i]
			fmt.Sscanf(part[i:], "[%d]", &idx)
		}
		if name != "" {
			v = vrField(v, name)
		}
		if idx >= 0 {
			for v.Kind() == reflect.Ptr {
				v = v.Elem()
			}
			v = v.Index(idx)
		}
	}
	return v
}

func vrSet(root any, path string, val any) {
	v := vrAt(root, path)
	for v.Kind() == reflect.Ptr {
		if v.IsNil() {
			v.Set(reflect.New(v.Type().Elem()))
		}
		v = v.Elem()
	}
	v.Set(reflect.ValueOf(val).Convert(v.Type()))
}

func vrSetLen(root any, path string, n int) {
	v := vrAt(root, path)
	v.Set(reflect.MakeSlice(v.Type(), n, n))
}

func vrSetIface(root any, path string, val any) {
	v := vrAt(root, path)
	v.Set(reflect.ValueOf(val))
}

func vrSetNil(root any, path string) {
	v := vrAt(root, path)
	v.Set(reflect.Zero(v.Type()))
}

func vrRun(fn func()) string {
	done := make(chan string, 1)
	go func() {
		defer func() {
			if r := recover(); r != nil {
				done <- fmt.Sprint("panic: ", r)
			}
		}()
		fn()
		done <- "returned"
	}()
	select {
	case s := <-done:
		return s
	case <-time.After(2 * time.Second):
		return "timeout"
	}
}
`

// packages whose real initialisation the replay should perform first
var replayPrelude = map[string]string{
	"ti/lexer": "\t_ = New(reader.LexerReader{}) // registers the reserved words like the real start-up does\n",
}
var replayImports = map[string][]string{
	"ti/lexer": {"ti/lexer/reader"},
}

type ReplayResult struct {
	Obligation string            `json:"obligation"`
	Function   string            `json:"function"`
	Desc       string            `json:"description"`
	Pos        string            `json:"source"`
	Solver     string            `json:"solver"`
	Status     string            `json:"solver_status"`
	Model      map[string]string `json:"model,omitempty"`
	Bound      string            `json:"model_bound,omitempty"`
	Outcome    string            `json:"replay_outcome"`
	Confirmed  bool              `json:"confirmed_on_real_code"`
	TestFile   string            `json:"test_file,omitempty"`
	Output     string            `json:"output,omitempty"`
	Witness    string            `json:"witness_input,omitempty"`
}

// try to find a small model and replay it.  Returns the result record.
func (e *Engine) replayModel(vc *VC, ob *Obligation, o SolveOpts, outDir string) *ReplayResult {
	rr := &ReplayResult{Obligation: ob.Name, Function: ob.Func, Desc: ob.Desc, Pos: ob.Pos, Solver: ob.Solver, Status: ob.Status, Outcome: "no-failing-input-found"}
	raw := ob.Raw
	if len(raw) > 4000 {
		raw = raw[:4000]
	}
	rr.Output = raw
	if vc == nil || ob.Status != "sat" {
		return rr
	}
	var post *postInfo
	if ob.Kind == "post" && ob.Clause != nil {
		enc, root, why := e.encodeClause(vc.top, ob.ClausePkg, ob.Clause)
		if root == nil {
			rr.Outcome = "no-failing-input-found (clause not evaluable at run time: " + why + ")"
			return rr
		}
		post = &postInfo{enc, root}
	} else if !(ob.Kind == "dec" || ob.Kind == "nil" || ob.Kind == "idx" || ob.Kind == "slice" || ob.Kind == "assert" || ob.Kind == "div" || ob.Kind == "mapnil" || ob.Kind == "panic") {
		return rr
	}
	if vc.top.Signature.Recv() == nil && vc.top.Parent() != nil {
		return rr // closures cannot be called from a test
	}
	plan := vc.plan
	if plan == nil {
		return rr
	}
	var terms []string
	for _, it := range plan.items {
		terms = append(terms, it.Term)
	}
	if len(terms) == 0 {
		return rr
	}
	text := func(extra []string) string {
		return ob.script.render(ob, extra, terms)
	}
	res := solveText(text(append(append([]string{}, plan.caps...), vc.firstIter...)), filepath.Join(o.Dir, "replay_first.smt2"), o)
	rr.Bound = fmt.Sprintf("slice lengths <= %d, failure in the first iteration of each loop", replayElems)
	if res.status != "sat" {
		res = solveText(text(plan.caps), filepath.Join(o.Dir, "replay_capped.smt2"), o)
		rr.Bound = fmt.Sprintf("slice lengths <= %d", replayElems)
	}
	if res.status != "sat" {
		res = solveText(text(nil), filepath.Join(o.Dir, "replay_uncapped.smt2"), o)
		rr.Bound = fmt.Sprintf("first %d elements of each slice", replayElems)
	}
	if res.status != "sat" {
		return rr
	}
	vals := parseGetValue(res.out)
	rr.Model = map[string]string{}
	for i := range plan.items {
		plan.items[i].Val = vals[plan.items[i].Term]
		if plan.items[i].Val != "" {
			rr.Model[plan.items[i].Path] = plan.items[i].Val
		}
	}
	src, ok := e.genReplayTest(vc, plan, post)
	if !ok {
		return rr
	}
	pkgDir := filepath.Join(e.repo, strings.TrimPrefix(strings.TrimPrefix(plan.pkg, "ti"), "/"))
	testPath := filepath.Join(pkgDir, "zz_verif_replay_test.go")
	tmp := filepath.Join(o.Dir, "zz_verif_replay_test.go")
	os.WriteFile(tmp, []byte(src), 0o644)
	ov := map[string]map[string]string{"Replace": {testPath: tmp}}
	for k, v := range e.overlay {
		p := filepath.Join(o.Dir, "ov_"+strings.ReplaceAll(strings.TrimPrefix(k, e.repo+"/"), "/", "_"))
		os.WriteFile(p, v, 0o644)
		ov["Replace"][k] = p
	}
	ovj, _ := json.Marshal(ov)
	ovPath := filepath.Join(o.Dir, "overlay.json")
	os.WriteFile(ovPath, ovj, 0o644)
	cmd := exec.Command("go", "test", "-overlay", ovPath, "-vet=off", "-v", "-count=1", "-timeout", "60s", "-run", "^TestVerifReplay$", "./"+strings.TrimPrefix(strings.TrimPrefix(plan.pkg, "ti"), "/"))
	cmd.Dir = e.repo
	done := make(chan struct{})
	var out []byte
	go func() { out, _ = cmd.CombinedOutput(); close(done) }()
	select {
	case <-done:
	case <-time.After(120 * time.Second):
		cmd.Process.Kill()
		<-done
	}
	so := string(out)
	rr.Output = so
	if len(rr.Output) > 4000 {
		rr.Output = rr.Output[:4000]
	}
	outcome := ""
	for _, ln := range strings.Split(so, "\n") {
		if strings.HasPrefix(ln, "VERIF-REPLAY outcome: ") {
			outcome = strings.TrimPrefix(ln, "VERIF-REPLAY outcome: ")
		}
	}
	if outcome == "" {
		rr.Outcome = "replay-did-not-run"
		return rr
	}
	rr.Outcome = outcome
	switch ob.Kind {
	case "dec":
		rr.Confirmed = outcome == "timeout"
	case "post":
		// the real function returned and the clause is false on the real post-state
		rr.Confirmed = strings.HasPrefix(outcome, "returned clause: false")
	default:
		rr.Confirmed = strings.HasPrefix(outcome, "panic:")
	}
	if outDir != "" {
		os.MkdirAll(outDir, 0o755)
		name := strings.NewReplacer("/", "_", "(", "", ")", "", "*", "", "#", "_", " ", "_", "$", "_", ":", "_").Replace(ob.Name)
		rr.TestFile = filepath.Join(outDir, name+"_test.go.txt")
		os.WriteFile(rr.TestFile, []byte(src), 0o644)
	}
	return rr
}

func (e *Engine) genReplayTest(vc *VC, plan *replayPlan, post *postInfo) (string, bool) {
	fn := vc.top
	pkgName := fn.Pkg.Pkg.Name()
	qual := func(p *types.Package) string {
		if p.Path() == fn.Pkg.Pkg.Path() {
			return ""
		}
		return p.Name()
	}
	imports := map[string]bool{}
	var b strings.Builder
	var body strings.Builder
	var callArgs []string
	for i, rp := range plan.params {
		t := rp.typ
		ts := types.TypeString(t, qual)
		collectImports(t, fn.Pkg.Pkg.Path(), imports)
		if pt, ok := t.Underlying().(*types.Pointer); ok {
			ets := types.TypeString(pt.Elem(), qual)
			fmt.Fprintf(&body, "\t%s := new(%s)\n", rp.root, ets)
			// nil parameter?
			isNil := false
			for _, it := range plan.items {
				if it.Path == rp.root && it.Kind == "nil" && it.Val == "true" {
					isNil = true
				}
			}
			if isNil {
				fmt.Fprintf(&body, "\t%s = nil\n", rp.root)
			}
		} else {
			fmt.Fprintf(&body, "\tvar %s_v %s\n\t%s := &%s_v\n", rp.root, ts, rp.root, rp.root)
		}
		_ = i
		if _, ok := t.Underlying().(*types.Pointer); ok {
			callArgs = append(callArgs, rp.root)
		} else {
			callArgs = append(callArgs, "*"+rp.root)
		}
	}
	// assignments, in path order (lengths before elements)
	nilPaths := map[string]bool{}
	for _, it := range plan.items {
		if it.Kind == "nil" && it.Val == "true" {
			nilPaths[it.Path] = true
		}
	}
	underNil := func(p string) bool {
		for np := range nilPaths {
			if strings.HasPrefix(p, np+".") || strings.HasPrefix(p, np+"[") {
				return true
			}
		}
		return false
	}
	lens := map[string]int{}
	ifaceKind := map[string]bool{}
	for _, it := range plan.items {
		root, rest := splitRoot(it.Path)
		if underNil(it.Path) || it.Val == "" {
			continue
		}
		switch it.Kind {
		case "len":
			lit, ok := goLiteral(it)
			if !ok {
				continue
			}
			n, _ := strconv.Atoi(lit)
			if beyondLen(it.Path, lens) {
				continue // a slice inside an element that does not exist in this model
			}
			if n > replayElems || n < 0 {
				return "", false
			}
			lens[it.Path] = n
			if rest == "" {
				// parameter itself is a slice
				goType := it.Go
				for _, rp := range plan.params {
					if rp.root == root {
						goType = types.TypeString(rp.typ, qual)
						collectImports(rp.typ, fn.Pkg.Pkg.Path(), imports)
						if sl, ok := rp.typ.Underlying().(*types.Slice); ok {
							collectImports(sl.Elem(), fn.Pkg.Pkg.Path(), imports)
						}
					}
				}
				fmt.Fprintf(&body, "\t*%s = make(%s, %d)\n", root, goType, n)
			} else if n > 0 {
				fmt.Fprintf(&body, "\tvrSetLen(%s, %q, %d)\n", root, rest, n)
			}
		case "nil":
			// nil pointers inside structures stay zero
		case "iface-is-string", "iface-is-int64":
			ifaceKind[it.Path+"|"+strings.TrimPrefix(it.Kind, "iface-is-")] = it.Val == "true"
		case "iface-string", "iface-int64":
			want := strings.TrimPrefix(it.Kind, "iface-")
			if !ifaceKind[it.Path+"|"+want] || rest == "" {
				continue
			}
			it2 := it
			it2.Kind = map[string]string{"string": "string", "int64": "int"}[want]
			lit, ok := goLiteral(it2)
			if !ok {
				continue
			}
			if want == "int64" {
				lit = "int64(" + lit + ")"
			}
			fmt.Fprintf(&body, "\tvrSetIface(%s, %q, %s)\n", root, rest, lit)
		default:
			// element beyond the slice length?
			if i := strings.LastIndex(it.Path, "["); i >= 0 {
				var idx int
				fmt.Sscanf(it.Path[i:], "[%d]", &idx)
				// find the enclosing slice path
				sp := it.Path[:i]
				if n, ok := lens[sp]; ok && idx >= n {
					continue
				}
				// nested element of struct slices: check every enclosing index
				skip := false
				pp := it.Path
				for {
					j := strings.LastIndex(pp, "[")
					if j < 0 {
						break
					}
					var ix int
					fmt.Sscanf(pp[j:], "[%d]", &ix)
					if n, ok := lens[pp[:j]]; ok && ix >= n {
						skip = true
					}
					pp = pp[:j]
				}
				if skip {
					continue
				}
			}
			lit, ok := goLiteral(it)
			if !ok {
				continue
			}
			if rest == "" {
				fmt.Fprintf(&body, "\t*%s = %s\n", root, lit)
			} else {
				fmt.Fprintf(&body, "\tvrSet(%s, %q, %s)\n", root, rest, lit)
			}
		}
	}
	// the call
	var call string
	if fn.Signature.Recv() != nil {
		recvArg := callArgs[0]
		if _, ok := fn.Signature.Recv().Type().Underlying().(*types.Pointer); !ok {
			recvArg = "(" + recvArg + ")"
		}
		call = fmt.Sprintf("%s.%s(%s)", recvArg, fn.Name(), strings.Join(callArgs[1:], ", "))
	} else {
		call = fmt.Sprintf("%s(%s)", fn.Name(), strings.Join(callArgs, ", "))
	}
	for _, im := range replayImports[plan.pkg] {
		imports[im] = true
	}
	if post != nil {
		imports["encoding/json"] = true
		for k := range post.enc.funcs {
			if strings.HasPrefix(k, "import:") {
				if pp := strings.TrimPrefix(k, "import:"); pp != plan.pkg {
					imports[pp] = true
				}
			}
		}
	}
	fmt.Fprintf(&b, "package %s\n\n// generated by /verif (govc): replay of a solver counterexample on the real code\n\nimport (\n\t\"fmt\"\n\t\"reflect\"\n\t\"strings\"\n\t\"testing\"\n\t\"time\"\n\t\"unsafe\"\n", pkgName)
	for im := range imports {
		fmt.Fprintf(&b, "\t%q\n", im)
	}
	fmt.Fprintf(&b, ")\n\nvar _ = strings.Split\nvar _ = reflect.ValueOf\nvar _ unsafe.Pointer\n%s\n", replayHelpers)
	if post != nil {
		b.WriteString(specInterp)
		b.WriteString("\nvar vrFuncs = map[string]any{\n")
		for _, k := range sortedKeys(post.enc.funcs) {
			if !strings.HasPrefix(k, "import:") {
				fmt.Fprintf(&b, "\t%q: %s,\n", k, post.enc.funcs[k])
			}
		}
		b.WriteString("}\n\nvar vrGlobals = map[string]any{\n")
		for _, k := range sortedKeys(post.enc.globals) {
			fmt.Fprintf(&b, "\t%q: %s,\n", k, post.enc.globals[k])
		}
		b.WriteString("}\n")
	}
	b.WriteString("\nfunc TestVerifReplay(t *testing.T) {\n")
	b.WriteString(replayPrelude[plan.pkg])
	b.WriteString(body.String())
	if post == nil {
		fmt.Fprintf(&b, "\toutcome := vrRun(func() { %s })\n\tfmt.Println(\"VERIF-REPLAY outcome:\", outcome)\n}\n", call)
		return b.String(), true
	}
	// postcondition replay: snapshot old() values, call, evaluate the clause on the real post-state
	b.WriteString("\tenv := &vrEnv{}\n")
	for _, rp := range plan.params {
		if _, ok := rp.typ.Underlying().(*types.Pointer); ok {
			fmt.Fprintf(&b, "\tenv.params = append(env.params, reflect.ValueOf(%s))\n", rp.root)
		} else {
			fmt.Fprintf(&b, "\tenv.params = append(env.params, reflect.ValueOf(%s).Elem())\n", rp.root)
		}
	}
	for _, o := range post.enc.olds {
		fmt.Fprintf(&b, "\tenv.olds = append(env.olds, vrSnapshot(env.eval(vrParse(%q))))\n", mustJSON(o))
	}
	nres := fn.Signature.Results().Len()
	var lhs, refl []string
	for i := 0; i < nres; i++ {
		lhs = append(lhs, fmt.Sprintf("r%d", i))
		refl = append(refl, fmt.Sprintf("reflect.ValueOf(&r%d).Elem()", i))
	}
	if nres > 0 {
		fmt.Fprintf(&b, "\toutcome := vrRun(func() {\n\t\t%s := %s\n\t\tenv.results = []reflect.Value{%s}\n\t})\n", strings.Join(lhs, ", "), call, strings.Join(refl, ", "))
	} else {
		fmt.Fprintf(&b, "\toutcome := vrRun(func() { %s })\n", call)
	}
	fmt.Fprintf(&b, "\tholds := \"n/a\"\n\tif outcome == \"returned\" {\n\t\tholds = vrRun2(func() string { return fmt.Sprint(vrBool(env.eval(vrParse(%q)))) })\n\t}\n", mustJSON(post.root))
	b.WriteString("\tfmt.Println(\"VERIF-REPLAY outcome:\", outcome, \"clause:\", holds)\n}\n\nfunc vrRun2(f func() string) (s string) {\n\tdefer func() {\n\t\tif r := recover(); r != nil {\n\t\t\ts = fmt.Sprint(\"eval-error: \", r)\n\t\t}\n\t}()\n\treturn f()\n}\n")
	return b.String(), true
}

type postInfo struct {
	enc  *specEncoder
	root *specNode
}

func splitRoot(path string) (string, string) {
	i := strings.IndexAny(path, ".[")
	if i < 0 {
		return path, ""
	}
	if path[i] == '.' {
		return path[:i], path[i+1:]
	}
	return path[:i], path[i:]
}

func collectImports(t types.Type, self string, out map[string]bool) {
	switch x := t.(type) {
	case *types.Named:
		if p := x.Obj().Pkg(); p != nil && p.Path() != self {
			out[p.Path()] = true
		}
	case *types.Pointer:
		collectImports(x.Elem(), self, out)
	case *types.Slice:
		collectImports(x.Elem(), self, out)
	}
}
