package main

// eos-exit obligations (C02, layer 3): in a function marked `eosexit`, every loop that reads a
// token directly (Read, ReadWithCheck, ReadAhead, ReadTwice) must be left before its next back
// edge on the path where that read returned the nil token (end of stream).  This is a necessary
// condition for termination at end of input - once the stream is exhausted every further read
// returns nil and consumes nothing (proved in the parser layer), so a loop that goes round
// again after a nil read spins forever.

import (
	"fmt"
	"go/token"
	"strings"

	"golang.org/x/tools/go/ssa"
)

type tokenRead struct {
	block  *ssa.BasicBlock
	reach  string
	isNil  string
	callee string
	pos    token.Pos
}

var tokenReaders = map[string]bool{
	"(*ti/parser.Parser).Read":          true,
	"(*ti/parser.Parser).ReadWithCheck": true,
	"(*ti/parser.Parser).ReadAhead":     true,
	"(*ti/parser.Parser).ReadTwice":     true,
}

func (f *Frame) noteTokenRead(fn *ssa.Function, res Val, pos token.Pos) {
	vc := f.vc
	if !f.top || vc.contract == nil || !vc.contract.EosExit || vc.pure > 0 || !tokenReaders[fn.String()] {
		return
	}
	if len(res.tup) == 0 {
		return
	}
	f.reads = append(f.reads, tokenRead{block: f.curB, reach: f.reach[f.curB], isNil: eq(res.tup[0].t, "0"), callee: fn.Name(), pos: pos})
}

func (f *Frame) checkEosExit(li *loopInfo, header *ssa.BasicBlock) {
	vc := f.vc
	if !f.top || vc.contract == nil || !vc.contract.EosExit {
		return
	}
	var allNil, some []string
	var where []string
	for _, r := range f.reads {
		if !li.body[r.block] {
			continue
		}
		// reads inside a nested loop belong to that loop
		inner := false
		for h, l2 := range f.loops {
			if h != header && li.body[h] && l2.body[r.block] {
				inner = true
			}
		}
		if inner {
			continue
		}
		allNil = append(allNil, implies(r.reach, r.isNil))
		some = append(some, r.reach)
		where = append(where, fmt.Sprintf("%s at %s", r.callee, vc.pos(r.pos)))
	}
	if len(some) == 0 {
		return
	}
	// at end of stream every read returns the nil token and consumes nothing (parser layer), so an
	// iteration in which all executed reads returned nil must not reach the back edge
	goal := implies(and(or(some...), and(allNil...)), "false")
	f.oblige(fmt.Sprintf("eos:loop%d", li.ordinal), goal,
		fmt.Sprintf("loop %d goes round again although every token read of the iteration (%s) returned the nil token (end of stream)", li.ordinal, strings.Join(where, ", ")),
		header.Instrs[0].Pos(), []string{"C02"}, true)
}
