package main

import (
	"go/constant"
	"go/token"

	"golang.org/x/tools/go/ssa"
)

// is the header phi p increased by a positive constant on every back edge?
func monotoneUp(p *ssa.Phi, header *ssa.BasicBlock) bool {
	found := false
	for i, pred := range header.Preds {
		if !header.Dominates(pred) {
			continue // entry edge
		}
		found = true
		e := p.Edges[i]
		if e == p {
			continue // unchanged on this back edge
		}
		bo, ok := e.(*ssa.BinOp)
		if !ok || bo.Op != token.ADD {
			return false
		}
		var c *ssa.Const
		switch {
		case bo.X == p:
			c, _ = bo.Y.(*ssa.Const)
		case bo.Y == p:
			c, _ = bo.X.(*ssa.Const)
		}
		if c == nil || c.Value == nil || c.Value.Kind() != constant.Int || constant.Sign(c.Value) <= 0 {
			return false
		}
	}
	return found
}

// does the path go through a slice element whose index is beyond the modelled length?
func beyondLen(path string, lens map[string]int) bool {
	pp := path
	for {
		j := lastIndexByte(pp, '[')
		if j < 0 {
			return false
		}
		ix := 0
		for k := j + 1; k < len(pp) && pp[k] >= '0' && pp[k] <= '9'; k++ {
			ix = ix*10 + int(pp[k]-'0')
		}
		if n, ok := lens[pp[:j]]; ok && ix >= n {
			return true
		}
		pp = pp[:j]
	}
}

func lastIndexByte(s string, c byte) int {
	for i := len(s) - 1; i >= 0; i-- {
		if s[i] == c {
			return i
		}
	}
	return -1
}
