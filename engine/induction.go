package main

import (
	"go/constant"
	"go/token"

	"golang.org/x/tools/go/ssa"
)

// is the header phi p increased by a positive constant on every back edge?
func monotoneUp(p *ssa.Phi, header *ssa.BasicBlock) bool {
	found := false
	for i, pred := range header.Preds {
		if !header.Dominates(pred) {
			continue // entry edge
		}
		found = true
		e := p.Edges[i]
		if e == p {
			continue // unchanged on this back edge
		}
		bo, ok := e.(*ssa.BinOp)
		if !ok || bo.Op != token.ADD {
			return false
		}
		var c *ssa.Const
		switch {
		case bo.X == p:
			c, _ = bo.Y.(*ssa.Const)
		case bo.Y == p:
			c, _ = bo.X.(*ssa.Const)
		}
		if c == nil || c.Value == nil || c.Value.Kind() != constant.Int || constant.Sign(c.Value) <= 0 {
			return false
		}
	}
	return found
}
