package main

// debugging aid: print the inferred mod-set of a function and which of its locations it may
// change in objects that existed before the call (see freshmod.go)
import (
	"fmt"
	"os"
	"sort"
)

func cmdFrames(args []string) {
	eng, err := loadEngine("/repo", nil)
	if err != nil {
		fmt.Fprintln(os.Stderr, "load:", err)
		os.Exit(2)
	}
	for _, name := range args {
		fn := eng.funcByName[name]
		if fn == nil {
			fmt.Println(name, ": not found")
			continue
		}
		m := eng.modOf(fn)
		fmt.Printf("%s: top=%v\n", name, m.Top)
		var ls []string
		for l := range m.Locs {
			ls = append(ls, l)
		}
		sort.Strings(ls)
		for _, l := range ls {
			k := "fresh-only"
			if eng.nonFresh[fn][l] || eng.nonFresh[fn]["*"] {
				k = "NON-FRESH"
			}
			fmt.Printf("  %-60s %s\n", l, k)
		}
	}
}
