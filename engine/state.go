package main

// Heap state: one SMT array per abstract location class (Burstall-Bornat).
//
//   F:<struct>.<field>   (Array Int V)             field f of struct objects, indexed by object reference
//   E:<elemtype>         (Array Int (Array Int V)) slice backing arrays of non-struct elements: [array ref][index]
//   C:<type>             (Array Int V)             cells: address-taken non-struct locals, *scalar pointees
//   G:<pkg.name>         V                         package-level variable
//   MD:<maptype>         (Array Int (Array K Bool)) map domains
//   MV:<maptype>         (Array Int (Array K V))    map values
//
// Struct-typed slice elements and nested struct fields are addressed by
// injective reference functions (elem, sub:S.f) into the F: maps.

import (
	"fmt"
	"go/types"
	"sort"
)

// LocInfo describes an abstract heap location class independent of any script.
type LocInfo struct {
	Kind string // F E C G MD MV
	Val  types.Type
	Key  types.Type
}

func (li LocInfo) sort(te *TypeEnv) string {
	switch li.Kind {
	case "F", "C":
		return "(Array Int " + te.sortOf(li.Val) + ")"
	case "E":
		return "(Array Int (Array Int " + te.sortOf(li.Val) + "))"
	case "G":
		return te.sortOf(li.Val)
	case "MD":
		return "(Array Int (Array " + te.sortOf(li.Key) + " Bool))"
	case "MV":
		return "(Array Int (Array " + te.sortOf(li.Key) + " " + te.sortOf(li.Val) + "))"
	case "SEEN": // ghost: keys a map range has produced so far
		return "(Array " + te.sortOf(li.Key) + " Bool)"
	}
	panic("bad loc kind " + li.Kind)
}

type Epoch struct {
	id    int
	parts []epochPart // merged epoch: ite over parts
	cache map[string]string
}

type epochPart struct {
	cond string
	st   *State
}

type State struct {
	loc   map[string]string
	epoch *Epoch
}

type HeapEnv struct {
	sc      *Script
	te      *TypeEnv
	nepoch  int
	locSort map[string]string
	record  map[string]string // when non-nil: locations read are recorded (footprints of abstract predicates)
}

func newHeapEnv(sc *Script, te *TypeEnv) *HeapEnv {
	return &HeapEnv{sc: sc, te: te, locSort: map[string]string{}}
}

func (h *HeapEnv) newEpoch() *Epoch {
	e := &Epoch{id: h.nepoch, cache: map[string]string{}}
	h.nepoch++
	return e
}

func (h *HeapEnv) entryState() *State {
	return &State{loc: map[string]string{}, epoch: h.newEpoch()}
}

func (s *State) clone() *State {
	n := &State{loc: make(map[string]string, len(s.loc)), epoch: s.epoch}
	for k, v := range s.loc {
		n.loc[k] = v
	}
	return n
}

func (h *HeapEnv) get(s *State, loc, srt string) string {
	if h.record != nil {
		h.record[loc] = srt
	}
	if v, ok := s.loc[loc]; ok {
		return v
	}
	h.locSort[loc] = srt
	v := h.epochGet(s.epoch, loc, srt)
	s.loc[loc] = v
	return v
}

func (h *HeapEnv) epochGet(e *Epoch, loc, srt string) string {
	if v, ok := e.cache[loc]; ok {
		return v
	}
	var v string
	if len(e.parts) == 0 {
		v = sym(fmt.Sprintf("H:%s@e%d", loc, e.id))
		h.sc.declConst(v, srt)
	} else {
		// ite over the merged states
		body := h.get(e.parts[len(e.parts)-1].st, loc, srt)
		for i := len(e.parts) - 2; i >= 0; i-- {
			body = ite(e.parts[i].cond, h.get(e.parts[i].st, loc, srt), body)
		}
		v = h.sc.define(fmt.Sprintf("H:%s@m%d", loc, e.id), srt, body)
	}
	e.cache[loc] = v
	return v
}

func (h *HeapEnv) set(s *State, loc, srt, val string) {
	h.locSort[loc] = srt
	s.loc[loc] = h.sc.define("H:"+loc, srt, val)
}

// havoc the given locations (nil = everything)
func (h *HeapEnv) havoc(s *State, mod ModSet) {
	// whatever runs may allocate: the allocation frontier only grows
	a0 := h.get(s, "ALLOC", "Int")
	defer func() {
		a1 := h.sc.freshConst("ALLOC@hv", "Int")
		h.sc.assume(app(">=", a1, a0))
		h.locSort["ALLOC"] = "Int"
		s.loc["ALLOC"] = a1
	}()
	if mod.Top {
		s.loc = map[string]string{}
		s.epoch = h.newEpoch()
		return
	}
	for _, l := range sortedKeys(mod.Locs) {
		srt := mod.Locs[l].sort(h.te)
		h.locSort[l] = srt
		s.loc[l] = h.sc.freshConst("H:"+l+"@hv", srt)
	}
}

type condState struct {
	cond string
	st   *State
}

// merge states arriving over several edges
func (h *HeapEnv) merge(ins []condState) *State {
	if len(ins) == 1 {
		return ins[0].st.clone()
	}
	sameEpoch := true
	for _, in := range ins[1:] {
		if in.st.epoch != ins[0].st.epoch {
			sameEpoch = false
		}
	}
	out := &State{loc: map[string]string{}}
	if sameEpoch {
		out.epoch = ins[0].st.epoch
	} else {
		e := h.newEpoch()
		for _, in := range ins {
			e.parts = append(e.parts, epochPart{in.cond, in.st})
		}
		out.epoch = e
	}
	keys := map[string]bool{}
	for _, in := range ins {
		for k := range in.st.loc {
			keys[k] = true
		}
	}
	var ks []string
	for k := range keys {
		ks = append(ks, k)
	}
	sort.Strings(ks)
	for _, k := range ks {
		srt := h.locSort[k]
		vals := make([]string, len(ins))
		same := true
		for i, in := range ins {
			vals[i] = h.get(in.st, k, srt)
			if vals[i] != vals[0] {
				same = false
			}
		}
		if same {
			out.loc[k] = vals[0]
			continue
		}
		body := vals[len(vals)-1]
		for i := len(vals) - 2; i >= 0; i-- {
			body = ite(ins[i].cond, vals[i], body)
		}
		out.loc[k] = h.sc.define("H:"+k+"@j", srt, body)
	}
	return out
}

// ---- mod sets ----

type ModSet struct {
	Top  bool
	Locs map[string]LocInfo
}

func (m *ModSet) add(loc string, srt LocInfo) bool {
	if m.Top {
		return false
	}
	if m.Locs == nil {
		m.Locs = map[string]LocInfo{}
	}
	if _, ok := m.Locs[loc]; ok {
		return false
	}
	m.Locs[loc] = srt
	return true
}

func (m *ModSet) union(o ModSet) bool {
	if m.Top {
		return false
	}
	if o.Top {
		m.Top = true
		m.Locs = nil
		return true
	}
	ch := false
	for k, v := range o.Locs {
		if m.add(k, v) {
			ch = true
		}
	}
	return ch
}
