package main

import "strings"

// elemTriggers returns the distinct subterms `(elem A I)` of an SMT term that mention the bound
// variable bv and no other bound variable (candidates for explicit quantifier triggers).
func elemTriggers(body, bv string) []string {
	var out []string
	seen := map[string]bool{}
	for i := 0; i+6 <= len(body); i++ {
		if !strings.HasPrefix(body[i:], "(elem ") {
			continue
		}
		// balanced parentheses (symbols in |...| may contain anything)
		depth, j, bar := 0, i, false
		for ; j < len(body); j++ {
			c := body[j]
			if c == '|' {
				bar = !bar
			}
			if bar {
				continue
			}
			if c == '"' {
				// string literal: skip to the closing quote ("" is an escaped quote)
				for j++; j < len(body); j++ {
					if body[j] == '"' {
						if j+1 < len(body) && body[j+1] == '"' {
							j++
							continue
						}
						break
					}
				}
				continue
			}
			if c == '(' {
				depth++
			} else if c == ')' {
				depth--
				if depth == 0 {
					break
				}
			}
		}
		if j >= len(body) {
			continue
		}
		t := body[i : j+1]
		if !containsToken(t, bv) {
			continue
		}
		// no other bound variable
		other := false
		for k := 0; k < len(t); {
			p := strings.Index(t[k:], boundPrefix)
			if p < 0 {
				break
			}
			p += k
			e := p
			for e < len(t) && t[e] != ' ' && t[e] != ')' {
				e++
			}
			if t[p:e] != bv {
				other = true
			}
			k = e
		}
		if other || seen[t] {
			continue
		}
		seen[t] = true
		out = append(out, t)
		if len(out) >= 4 {
			break
		}
	}
	return out
}

func containsToken(t, tok string) bool {
	for k := 0; k < len(t); {
		p := strings.Index(t[k:], tok)
		if p < 0 {
			return false
		}
		p += k
		e := p + len(tok)
		if e >= len(t) || t[e] == ' ' || t[e] == ')' {
			return true
		}
		k = e
	}
	return false
}

// absIndexRewrite turns a quantifier over a relative slice index into one over the absolute
// index of the backing array when every use of the bound variable inside an element reference
// has the shape (+ (s_off S) bv) for one and the same slice term S:
//     forall i. P(i, elem(arr, off+i))   ==   forall k. P(k-off, elem(arr, k))
// The trigger (elem arr k) then has a bare variable as index, which E-matching finds whatever
// normal form the arithmetic around it takes.
func absIndexRewrite(body, bv string) (string, bool) {
	// element references decide which slice is re-indexed; without any (a quantifier over a slice
	// of plain values, `forallx`) every relative index does
	if out, ok := absIndexRewriteSel(body, bv, true); ok {
		return out, true
	}
	return absIndexRewriteSel(body, bv, false)
}

func absIndexRewriteSel(body, bv string, elemOnly bool) (string, bool) {
	pre := "(+ (s_off "
	var slice string
	n := 0
	for i := 0; ; {
		p := strings.Index(body[i:], pre)
		if p < 0 {
			break
		}
		p += i
		// balanced slice term
		j := p + len(pre)
		start := j
		depth, bar := 0, false
		for ; j < len(body); j++ {
			c := body[j]
			if c == '|' {
				bar = !bar
			}
			if bar {
				continue
			}
			if c == '(' {
				depth++
			} else if c == ')' {
				if depth == 0 {
					break
				}
				depth--
			} else if c == ' ' && depth == 0 {
				break
			}
		}
		s := body[start:j]
		rest := body[j:]
		want := ") " + bv + ")"
		if strings.HasPrefix(rest, want) && (!elemOnly || insideElem(body, p)) {
			// (only element references matter: a read of a slice of plain values next to them,
			// such as result[i] in `result[i] == t.variants[i].tType`, simply gets i := k - off)
			if slice == "" {
				slice = s
			} else if slice != s {
				return body, false
			}
			n++
		}
		i = p + len(pre)
	}
	if n == 0 {
		return body, false
	}
	full := pre + slice + ") " + bv + ")"
	const ph = "@@ABSIDX@@"
	out := strings.ReplaceAll(body, full, ph)
	// remaining uses of the bound variable (as a whole token) become k - off
	var b strings.Builder
	for k := 0; k < len(out); {
		p := strings.Index(out[k:], bv)
		if p < 0 {
			b.WriteString(out[k:])
			break
		}
		p += k
		e := p + len(bv)
		b.WriteString(out[k:p])
		if e >= len(out) || out[e] == ' ' || out[e] == ')' {
			b.WriteString("(- " + bv + " (s_off " + slice + "))")
		} else {
			b.WriteString(bv)
		}
		k = e
	}
	return strings.ReplaceAll(b.String(), ph, bv), true
}

// is the term starting at position p the index argument of an element reference `(elem A <here>)`?
func insideElem(body string, p int) bool {
	j := p - 1
	for j >= 0 && body[j] == ' ' {
		j--
	}
	if j < 0 {
		return false
	}
	// body[..j] ends the array term A: find where it starts
	start := j
	if body[j] == ')' {
		depth, bar := 0, false
		for ; start >= 0; start-- {
			c := body[start]
			if c == '|' {
				bar = !bar
			}
			if bar {
				continue
			}
			if c == ')' {
				depth++
			} else if c == '(' {
				depth--
				if depth == 0 {
					break
				}
			}
		}
	} else if body[j] == '|' {
		start = j - 1
		for start >= 0 && body[start] != '|' {
			start--
		}
	} else {
		for start >= 0 && body[start] != ' ' && body[start] != '(' {
			start--
		}
		start++
	}
	if start < 0 {
		return false
	}
	const head = "(elem "
	return start >= len(head) && body[start-len(head):start] == head
}

// nameElemArrays replaces, inside element references, every array term `(s_arr S)` by a fresh
// declared constant equal to it.  S is often a macro that expands to an if-then-else (a merged
// loop variable), and a trigger must not contain `ite`; with a constant the trigger is legal and
// matching works modulo the asserted equality.
func (vc *VC) nameElemArrays(body string) string {
	pre := "(elem (s_arr "
	done := map[string]string{}
	for i := 0; ; {
		p := strings.Index(body[i:], pre)
		if p < 0 {
			break
		}
		p += i
		j := p + len(pre)
		start := j
		depth, bar := 0, false
		for ; j < len(body); j++ {
			c := body[j]
			if c == '|' {
				bar = !bar
			}
			if bar {
				continue
			}
			if c == '(' {
				depth++
			} else if c == ')' {
				if depth == 0 {
					break
				}
				depth--
			}
		}
		if j >= len(body) {
			break
		}
		s := body[start:j]
		i = p + len(pre)
		if hasBound(s) || strings.ContainsAny(s, " ") && !strings.HasPrefix(s, "(") && !strings.HasPrefix(s, "|") {
			continue
		}
		if _, ok := done[s]; ok {
			continue
		}
		key := "qarr:" + s
		c, ok := vc.qarr[key]
		if !ok {
			c = vc.sc.freshConst("qarr", "Int")
			vc.sc.declSet["qarr:used"] = true
			vc.sc.assume(eq(c, "(s_arr "+s+")"))
			if vc.qarr == nil {
				vc.qarr = map[string]string{}
			}
			vc.qarr[key] = c
		}
		done[s] = c
	}
	for s, c := range done {
		body = strings.ReplaceAll(body, "(elem (s_arr "+s+") ", "(elem "+c+" ")
	}
	return body
}

// selectTriggers returns the distinct subterms `(select X bv)` whose index is the bare bound
// variable (candidates for explicit triggers of re-indexed slice reads)
func selectTriggers(body, bv string) []string {
	var out []string
	seen := map[string]bool{}
	suffix := " " + bv + ")"
	for i := 0; i+8 <= len(body); i++ {
		if !strings.HasPrefix(body[i:], "(select ") {
			continue
		}
		depth, j, bar := 0, i, false
		for ; j < len(body); j++ {
			c := body[j]
			if c == '|' {
				bar = !bar
			}
			if bar {
				continue
			}
			if c == '(' {
				depth++
			} else if c == ')' {
				depth--
				if depth == 0 {
					break
				}
			}
		}
		if j >= len(body) {
			continue
		}
		t := body[i : j+1]
		if !strings.HasSuffix(t, suffix) || seen[t] {
			continue
		}
		// the array part must not mention a bound variable
		if hasBound(t[:len(t)-len(suffix)]) {
			continue
		}
		seen[t] = true
		out = append(out, t)
		if len(out) >= 3 {
			break
		}
	}
	return out
}
