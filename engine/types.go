package main

// Go type -> SMT sort mapping, zero values, type tags.

import (
	"fmt"
	"go/types"
	"strings"
)

const (
	sortSlice = "Slice"
	sortIface = "Iface"
)

type TypeEnv struct {
	sc      *Script
	structs map[string]*types.Struct // sort name -> struct
	tags    map[string]int
	tagList []string
}

func newTypeEnv(sc *Script) *TypeEnv {
	te := &TypeEnv{sc: sc, structs: map[string]*types.Struct{}, tags: map[string]int{}}
	sc.declSort(sortSlice, "(declare-datatypes ((Slice 0)) (((mk_slice (s_arr Int) (s_off Int) (s_len Int) (s_cap Int)))))")
	sc.declSort(sortIface, "(declare-datatypes ((Iface 0)) (((mk_iface (i_tag Int) (i_val Int)))))")
	return te
}

func typeKey(t types.Type) string {
	t = types.Unalias(t)
	if b, ok := t.(*types.Basic); ok && b.Kind() < types.UntypedBool && b.Kind() != types.Invalid {
		return types.Typ[b.Kind()].Name() // rune -> int32, byte -> uint8
	}
	return types.TypeString(t, nil)
}

// name of a struct sort
func structSortName(t types.Type) string {
	return sym("S:" + typeKey(t))
}

func isStruct(t types.Type) bool {
	_, ok := t.Underlying().(*types.Struct)
	return ok
}

func isPointerToStruct(t types.Type) bool {
	p, ok := t.Underlying().(*types.Pointer)
	return ok && isStruct(p.Elem())
}

func (te *TypeEnv) sortOf(t types.Type) string {
	switch u := t.Underlying().(type) {
	case *types.Basic:
		switch {
		case u.Info()&types.IsBoolean != 0:
			return "Bool"
		case u.Info()&types.IsInteger != 0:
			return "Int"
		case u.Info()&types.IsString != 0:
			return "String"
		case u.Info()&types.IsFloat != 0:
			return "Real"
		case u.Kind() == types.UnsafePointer:
			return "Int"
		case u.Kind() == types.UntypedNil:
			return "Int"
		}
		return "Int"
	case *types.Pointer, *types.Map, *types.Chan, *types.Signature:
		return "Int"
	case *types.Slice:
		return sortSlice
	case *types.Interface:
		return sortIface
	case *types.Array:
		return "(Array Int " + te.sortOf(u.Elem()) + ")"
	case *types.Struct:
		name := structSortName(t)
		if _, ok := te.structs[name]; !ok {
			te.structs[name] = u
			var fs []string
			for i := 0; i < u.NumFields(); i++ {
				fs = append(fs, fmt.Sprintf("(%s %s)", te.fieldSel(t, i), te.sortOf(u.Field(i).Type())))
			}
			if len(fs) == 0 {
				fs = append(fs, fmt.Sprintf("(%s Int)", sym("f:"+typeKey(t)+".!empty")))
			}
			te.sc.declSort(name, fmt.Sprintf("(declare-datatypes ((%s 0)) (((%s %s))))", name, te.structCtor(t), strings.Join(fs, " ")))
		}
		return name
	case *types.Tuple:
		return "Int"
	case *types.TypeParam:
		return "Int"
	}
	return "Int"
}

func (te *TypeEnv) structCtor(t types.Type) string { return sym("mk:" + typeKey(t)) }
func (te *TypeEnv) fieldSel(t types.Type, i int) string {
	u := t.Underlying().(*types.Struct)
	return sym("f:" + typeKey(t) + "." + u.Field(i).Name())
}

func (te *TypeEnv) zero(t types.Type) string {
	switch u := t.Underlying().(type) {
	case *types.Basic:
		switch {
		case u.Info()&types.IsBoolean != 0:
			return "false"
		case u.Info()&types.IsString != 0:
			return `""`
		case u.Info()&types.IsFloat != 0:
			return "0.0"
		}
		return "0"
	case *types.Slice:
		return "(mk_slice 0 0 0 0)"
	case *types.Interface:
		return "(mk_iface 0 0)"
	case *types.Array:
		return fmt.Sprintf("((as const %s) %s)", te.sortOf(t), te.zero(u.Elem()))
	case *types.Struct:
		te.sortOf(t)
		var fs []string
		for i := 0; i < u.NumFields(); i++ {
			fs = append(fs, te.zero(u.Field(i).Type()))
		}
		if len(fs) == 0 {
			fs = append(fs, "0")
		}
		return "(" + te.structCtor(t) + " " + strings.Join(fs, " ") + ")"
	}
	return "0"
}

// type invariants that hold for every Go value of type t (assumed on fresh values)
// A is the allocation frontier: every reference that exists at this point is <= A
// (allocated references are positive and numbered in allocation order; interior
// references sub(..)/elem(..) and globals are negative; nil is 0).
func (te *TypeEnv) typeInv(t types.Type, v string, depth int, A string) string {
	switch u := t.Underlying().(type) {
	case *types.Basic:
		if u.Info()&types.IsUnsigned != 0 {
			return app(">=", v, "0")
		}
		switch u.Kind() {
		case types.Uint8:
			return and(app(">=", v, "0"), app("<=", v, "255"))
		}
		return "true"
	case *types.Slice:
		return and(app(">=", app("s_off", v), "0"), app(">=", app("s_len", v), "0"), app("<=", app("s_len", v), app("s_cap", v)),
			implies(eq(app("s_arr", v), "0"), eq(app("s_cap", v), "0")), app(">=", app("s_arr", v), "0"), app("<=", app("s_arr", v), A))
	case *types.Interface:
		return and(app(">=", app("i_tag", v), "0"), implies(eq(app("i_tag", v), "0"), eq(app("i_val", v), "0")))
	case *types.Pointer:
		// a pointer refers to an allocated object or (negative reference) into one: own(v) is that object
		te.sc.decl("own", "(declare-fun own (Int) Int)")
		return and(app("<=", v, A), app("<=", app("own", v), A), implies(app(">=", v, "0"), eq(app("own", v), v)))
	case *types.Map:
		return and(app(">=", v, "0"), app("<=", v, A))
	case *types.Struct:
		if depth > 2 {
			return "true"
		}
		te.sortOf(t)
		var cs []string
		for i := 0; i < u.NumFields(); i++ {
			cs = append(cs, te.typeInv(u.Field(i).Type(), app(te.fieldSel(t, i), v), depth+1, A))
		}
		return and(cs...)
	}
	return "true"
}

// type tags for interface values
func (te *TypeEnv) tagOf(t types.Type) int {
	k := typeKey(t)
	if id, ok := te.tags[k]; ok {
		return id
	}
	id := len(te.tagList) + 1
	te.tags[k] = id
	te.tagList = append(te.tagList, k)
	return id
}

// boxing of non-Int payloads into interface values
func (te *TypeEnv) box(t types.Type, v string) string {
	s := te.sortOf(t)
	switch s {
	case "Int":
		return v
	case "Bool":
		return ite(v, "1", "0")
	}
	bx, ub := te.boxFuns(t)
	r := app(bx, v)
	if !hasBound(v) {
		key := "inst:" + r
		if !te.sc.declSet[key] {
			te.sc.declSet[key] = true
			te.sc.assume(eq(app(ub, r), v))
		}
	}
	return r
}

func (te *TypeEnv) boxFuns(t types.Type) (string, string) {
	s := te.sortOf(t)
	bx := sym("box:" + s)
	ub := sym("unbox:" + s)
	te.sc.decl(bx, fmt.Sprintf("(declare-fun %s (%s) Int)", bx, s))
	te.sc.decl(ub, fmt.Sprintf("(declare-fun %s (Int) %s)", ub, s))
	return bx, ub
}

func (te *TypeEnv) unbox(t types.Type, payload string) string {
	s := te.sortOf(t)
	switch s {
	case "Int":
		return payload
	case "Bool":
		return app("=", payload, "1")
	}
	_, ub := te.boxFuns(t)
	return app(ub, payload)
}

// leaf decomposition of a struct type: every field path that is not itself a struct
type leafField struct {
	owner types.Type // struct type owning the field
	index int
	typ   types.Type
}

func fieldLoc(owner types.Type, i int) string {
	u := owner.Underlying().(*types.Struct)
	return "F:" + typeKey(owner) + "." + u.Field(i).Name()
}

func subFun(owner types.Type, i int) string {
	u := owner.Underlying().(*types.Struct)
	return sym("sub:" + typeKey(owner) + "." + u.Field(i).Name())
}
