package main

import (
	"fmt"
	"os"
	"sort"

	"golang.org/x/tools/go/ssa"
)

// list module functions that have a loop with a direct token read in its body
func cmdReadLoops(args []string) {
	eng, err := loadEngine("/repo", nil)
	if err != nil {
		fmt.Fprintln(os.Stderr, err)
		os.Exit(2)
	}
	var names []string
	for _, fn := range eng.allFuncs {
		if !eng.inModule(fn) || fn.Blocks == nil {
			continue
		}
		loops := findLoops(fn)
		hit := false
		for _, li := range loops {
			for b := range li.body {
				for _, ins := range b.Instrs {
					if c, ok := ins.(*ssa.Call); ok {
						if callee, ok := c.Call.Value.(*ssa.Function); ok && tokenReaders[callee.String()] {
							hit = true
						}
					}
				}
			}
		}
		if hit {
			pname := ""
			for _, p := range fn.Params {
				if p.Type().String() == "*ti/parser.Parser" {
					pname = p.Name()
				}
			}
			names = append(names, fmt.Sprintf("%s %s %d", fn.String(), pname, len(loops)))
		}
	}
	sort.Strings(names)
	for _, n := range names {
		fmt.Println(n)
	}
}
