package main

import "go/types"

// slice term of a value that is a slice or an interface holding a slice
func (te *TypeEnv) unboxSliceArg(v Val) string {
	if v.t == "" {
		return ""
	}
	switch te.sortOf(v.typ) {
	case sortSlice:
		return v.t
	case sortIface:
		return te.unbox(types.NewSlice(types.Typ[types.Int]), app("i_val", v.t))
	}
	return ""
}
