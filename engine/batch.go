package main

// Batch discharge: all obligations of one function in a single incremental z3 process
// (push / assert negated goal / check-sat / pop, then assert the goal).  Only `unsat` answers are
// taken from the batch; everything else is re-run individually (sliced query, solver race), so a
// batch can only make the common case faster, never change a verdict.

import (
	"bytes"
	"fmt"
	"os"
	"path/filepath"
	"strings"
)

func solveBatch(sc *Script, obs []*Obligation, o SolveOpts, idx int) {
	want := map[*Obligation]bool{}
	last := 0
	for _, ob := range obs {
		if !ob.Cover {
			want[ob] = true
			if ob.idx > last {
				last = ob.idx
			}
		}
	}
	if len(want) == 0 {
		return
	}
	var b bytes.Buffer
	b.WriteString("(set-option :timeout 1500)\n(set-logic ALL)\n")
	for _, c := range sc.cmds {
		if c.kind == cDeclSort {
			b.WriteString(c.text + "\n")
		}
	}
	for _, c := range sc.cmds {
		if c.kind == cDecl && !strings.HasPrefix(c.name, "axiom:") {
			b.WriteString(c.text + "\n")
		}
	}
	for _, c := range sc.cmds {
		if c.kind == cDecl && strings.HasPrefix(c.name, "axiom:") {
			b.WriteString(c.text + "\n")
		}
	}
	var order []*Obligation
	for i, c := range sc.cmds {
		if i > last {
			break
		}
		switch c.kind {
		case cDef, cAssume:
			b.WriteString(c.text + "\n")
		case cOblig:
			if c.ob.Cover {
				continue
			}
			if want[c.ob] {
				fmt.Fprintf(&b, "(push)\n(assert (not %s))\n(check-sat)\n(pop)\n", c.text)
				order = append(order, c.ob)
			}
			fmt.Fprintf(&b, "(assert %s)\n", c.text)
		}
	}
	file := filepath.Join(o.Dir, fmt.Sprintf("batch_%d.smt2", idx))
	if err := os.WriteFile(file, b.Bytes(), 0o644); err != nil {
		return
	}
	r := runSolver(solverSpec{"z3-5.1.0", func(f string, t int) []string { return []string{"z3-new", f} }}, file, 1500*len(order)+20000)
	noteSolve(solveResult{status: "batch", solver: "z3-5.1.0", secs: r.secs})
	var answers []string
	for _, ln := range strings.Split(r.out, "\n") {
		ln = strings.TrimSpace(ln)
		switch ln {
		case "sat", "unsat", "unknown", "timeout":
			answers = append(answers, ln)
		default:
			if strings.HasPrefix(ln, "(error") {
				return // misaligned output: take nothing from the batch
			}
		}
	}
	if len(answers) != len(order) {
		return
	}
	for i, ob := range order {
		if answers[i] == "unsat" {
			ob.Status, ob.Solver, ob.Seconds = "unsat", "z3-5.1.0", r.secs/float64(len(order))
		}
	}
}
