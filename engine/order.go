package main

// Order-independence of `range` loops over maps (Go randomises the iteration
// order per loop).  For each such loop the generator produces obligations of one
// of three shapes, decided from the loop itself:
//
//   sorted-after   the body only appends the elements to one slice which is sorted right
//                  after the loop: reduces to the comparator's contract (total order that
//                  separates distinct elements), checked as ordinary post obligations.
//   early-exit     the body can leave the loop (return/break): at most one element may do so,
//                  and elements that do not leave must have no effect.
//   commutative    two symbolic iterations (k1,v1),(k2,v2), k1 != k2, executed in both
//                  orders from the same arbitrary state end in the same state (every
//                  modified location, every loop-carried variable, the output log).

import (
	"fmt"
	"go/types"
	"sort"
	"strings"

	"golang.org/x/tools/go/ssa"
)

type orderResult struct {
	obs         []*Obligation
	notes       []string
	outOfSubset []string
	extraFuncs  []string // comparator closures whose contracts carry the obligation
	vcs         map[string]*VC
}

func (e *Engine) orderObligations(pkgPrefixes []string, prop string) *orderResult {
	res := &orderResult{vcs: map[string]*VC{}}
	perFn := map[string]int{}
	for _, mr := range e.mapRanges() {
		path := ""
		if mr.fn.Pkg != nil {
			path = mr.fn.Pkg.Pkg.Path()
		} else if mr.fn.Parent() != nil && mr.fn.Parent().Pkg != nil {
			path = mr.fn.Parent().Pkg.Pkg.Path()
		}
		match := false
		for _, pp := range pkgPrefixes {
			if path == pp {
				match = true
			}
		}
		if !match {
			continue
		}
		ord := perFn[mr.fn.String()]
		perFn[mr.fn.String()]++
		e.orderForLoop(mr, ord, prop, res)
	}
	return res
}

func loopOfRange(fn *ssa.Function, r *ssa.Range) *loopInfo {
	loops := findLoops(fn)
	for _, li := range loops {
		for _, ins := range li.header.Instrs {
			if n, ok := ins.(*ssa.Next); ok && n.Iter == r {
				return li
			}
		}
	}
	return nil
}

// sorted-after shape?  returns the comparator closure (nil for sort.Strings / natural order)
func sortedAfter(fn *ssa.Function, li *loopInfo) (ok bool, cmp *ssa.Function, why string) {
	var appended ssa.Value
	for b := range li.body {
		for _, ins := range b.Instrs {
			switch x := ins.(type) {
			case *ssa.Next, *ssa.Extract, *ssa.Phi, *ssa.If, *ssa.Jump, *ssa.DebugRef, *ssa.IndexAddr, *ssa.Slice,
				*ssa.Field, *ssa.FieldAddr, *ssa.BinOp, *ssa.MakeInterface, *ssa.ChangeType, *ssa.Convert:
			case *ssa.Alloc:
				if !strings.Contains(x.Comment, "varargs") {
					return false, nil, "allocation in loop body"
				}
			case *ssa.UnOp:
			case *ssa.Store:
				// only into the varargs array of append
				ia, isIA := x.Addr.(*ssa.IndexAddr)
				if !isIA {
					return false, nil, "store in loop body"
				}
				if al, isAl := ia.X.(*ssa.Alloc); !isAl || !strings.Contains(al.Comment, "varargs") {
					return false, nil, "store in loop body"
				}
			case *ssa.Call:
				bi, isB := x.Call.Value.(*ssa.Builtin)
				if !isB || bi.Name() != "append" {
					return false, nil, "call in loop body"
				}
				if appended != nil {
					return false, nil, "two appends"
				}
				appended = x
			default:
				return false, nil, fmt.Sprintf("%T in loop body", ins)
			}
		}
	}
	if appended == nil {
		return false, nil, "no append"
	}
	// the appended slice is loop-carried through a header phi; after the loop the phi must flow
	// into a sort call before anything else uses it
	var phi *ssa.Phi
	for _, ins := range li.header.Instrs {
		if p, ok := ins.(*ssa.Phi); ok {
			for _, ed := range p.Edges {
				if ed == appended {
					phi = p
				}
			}
		}
	}
	if phi == nil {
		return false, nil, "appended slice is not loop carried"
	}
	// uses of the phi outside the loop, in block order
	type use struct {
		blk, idx int
		ins      ssa.Instruction
	}
	var uses []use
	for _, u := range *phi.Referrers() {
		if li.body[u.Block()] {
			continue
		}
		if _, isDbg := u.(*ssa.DebugRef); isDbg {
			continue
		}
		for i, ins := range u.Block().Instrs {
			if ins == u {
				uses = append(uses, use{u.Block().Index, i, u})
			}
		}
	}
	sort.Slice(uses, func(i, j int) bool {
		if uses[i].blk != uses[j].blk {
			return uses[i].blk < uses[j].blk
		}
		return uses[i].idx < uses[j].idx
	})
	if len(uses) == 0 {
		return false, nil, "appended slice unused"
	}
	call, isCall := uses[0].ins.(*ssa.Call)
	if !isCall {
		return false, nil, "first use after the loop is not a sort call"
	}
	callee, _ := call.Call.Value.(*ssa.Function)
	if callee == nil {
		return false, nil, "first use after the loop is not a sort call"
	}
	name := callee.String()
	if o := callee.Origin(); o != nil {
		name = o.String()
	}
	switch {
	case name == "sort.Strings" || name == "sort.Ints" || name == "slices.Sort":
		return true, nil, ""
	case name == "slices.SortFunc" || name == "slices.SortStableFunc" || name == "sort.Slice" || name == "sort.SliceStable":
		if len(call.Call.Args) >= 2 {
			if mc, ok := call.Call.Args[1].(*ssa.MakeClosure); ok {
				return true, mc.Fn.(*ssa.Function), ""
			}
			if f, ok := call.Call.Args[1].(*ssa.Function); ok {
				return true, f, ""
			}
		}
		return false, nil, "comparator is not a function literal"
	}
	return false, nil, "first use after the loop is " + name
}

func (e *Engine) orderForLoop(mr mapRange, ord int, prop string, res *orderResult) {
	fn := mr.fn
	li := loopOfRange(fn, mr.rng)
	base := fmt.Sprintf("%s/order:loop%d", fn.String(), ord)
	pos := strings.TrimPrefix(mr.pos, e.repo+"/")
	if _, skip := e.orderSkip[base]; skip {
		return
	}
	if li == nil {
		res.outOfSubset = append(res.outOfSubset, base+": loop structure not recognised")
		return
	}
	// explicit waiver: the output of this loop is allowed to be unordered (an unordered set of records)
	if ct := e.contracts[fn.String()]; ct != nil && ct.Unordered[ord] != "" {
		e.unorderedAllowed(fn, ord, ct.Unordered[ord], base, pos, res)
		return
	}
	if ok, cmp, _ := sortedAfter(fn, li); ok {
		sc := newScript()
		ob := &Obligation{Name: base + ".sorted-after#0", Kind: "order", Func: fn.String(), Goal: "true", Claimed: true, Pos: pos,
			Desc: "the loop only collects the elements into a slice that is sorted immediately afterwards"}
		if cmp != nil {
			ct := e.contracts[cmp.String()]
			if ct == nil || len(ct.Ensures) == 0 {
				ob.Goal = "false"
				ob.Desc = "sorted-after loop whose comparator " + cmp.String() + " has no contract (it must be a total order separating distinct elements)"
			} else {
				res.extraFuncs = append(res.extraFuncs, cmp.String())
				ob.Desc += "; comparator contract: " + cmp.String()
			}
		}
		sc.oblige(ob)
		res.obs = append(res.obs, ob)
		return
	}
	e.commutativity(mr, li, ord, base, pos, res)
}

// the loop may print in map order only if the property allows an unordered result there: the
// function must be reachable only from the named entry point
func (e *Engine) unorderedAllowed(fn *ssa.Function, ord int, only string, base, pos string, res *orderResult) {
	sc := newScript()
	ob := &Obligation{Name: base + ".unordered-allowed#0", Kind: "order", Func: fn.String(), Goal: "true", Claimed: true, Pos: pos,
		Desc: "output order of this loop is unspecified by the property; the function is reachable only from " + only}
	// callers, transitively, must all pass through `only`
	callers := map[*ssa.Function][]*ssa.Function{}
	for _, g := range e.allFuncs {
		if !e.inModule(g) {
			continue
		}
		for _, b := range g.Blocks {
			for _, ins := range b.Instrs {
				if c, ok := ins.(ssa.CallInstruction); ok {
					if callee, ok := c.Common().Value.(*ssa.Function); ok {
						callers[callee] = append(callers[callee], g)
					}
				}
			}
		}
	}
	seen := map[*ssa.Function]bool{}
	var bad []string
	var walk func(f *ssa.Function)
	walk = func(f *ssa.Function) {
		if seen[f] {
			return
		}
		seen[f] = true
		if f.String() == only {
			return
		}
		cs := callers[f]
		if len(cs) == 0 {
			bad = append(bad, f.String())
			return
		}
		for _, c := range cs {
			walk(c)
		}
	}
	walk(fn)
	if len(bad) > 0 {
		ob.Goal = "false"
		ob.Desc += "; but it is also reachable from " + strings.Join(bad, ", ")
	}
	sc.oblige(ob)
	res.obs = append(res.obs, ob)
}

func (e *Engine) commutativity(mr mapRange, li *loopInfo, ord int, base, pos string, res *orderResult) {
	fn := mr.fn
	sc := newScript()
	te := newTypeEnv(sc)
	he := newHeapEnv(sc, te)
	vc := &VC{eng: e, sc: sc, te: te, he: he, top: fn, counters: map[string]int{}, grefs: map[string]int{}, outer: map[ssa.Value]Val{}}
	res.vcs[base] = vc
	defer func() {
		if r := recover(); r != nil {
			if u, ok := r.(unsupportedErr); ok {
				res.outOfSubset = append(res.outOfSubset, base+": "+u.msg)
				return
			}
			panic(r)
		}
	}()
	st0 := he.entryState()
	vc.entry = st0.clone()
	sc.assume(app(">=", he.get(st0, "ALLOC", "Int"), "0"))
	// a frame just to evaluate outer values
	f0 := vc.newFrame(fn, make([]Val, len(fn.Params)), st0, "true", true, "")
	for i, p := range fn.Params {
		v := vc.paramVal(p.Name(), p.Type())
		f0.params[i] = v
		f0.vals[p] = v
		vc.outer[p] = v
		if v.addr == nil {
			sc.assume(te.typeInv(p.Type(), v.t, 0, he.get(st0, "ALLOC", "Int")))
		}
	}
	vc.topFrame = f0
	vc.stack = []*ssa.Function{fn}
	f0.iter = &iterMode{header: li.header, body: li.body}
	f0.curB = li.header
	f0.reach[li.header] = "true"
	f0.cur = st0
	mt := mr.rng.X.Type()
	mval := f0.val(mr.rng.X)
	kt := mt.Underlying().(*types.Map).Key()
	et := mt.Underlying().(*types.Map).Elem()
	mk := func(i int) (Val, Val) {
		k := vc.freshVal(fmt.Sprintf("k%d", i), kt)
		v, okIn := f0.mapRead(mt, mval.t, k.t)
		sc.assume(okIn)
		vv := Val{t: sc.define(fmt.Sprintf("v%d", i), te.sortOf(et), v), typ: et}
		sc.assume(te.typeInv(et, vv.t, 0, he.get(st0, "ALLOC", "Int")))
		sc.assume(te.typeInv(kt, k.t, 0, he.get(st0, "ALLOC", "Int")))
		return k, vv
	}
	k1, v1 := mk(1)
	k2, v2 := mk(2)
	sc.assume(not(eq(k1.t, k2.t)))
	var phis []*ssa.Phi
	for _, ins := range li.header.Instrs {
		if p, ok := ins.(*ssa.Phi); ok {
			phis = append(phis, p)
		}
	}
	phi0 := map[*ssa.Phi]Val{}
	for _, p := range phis {
		phi0[p] = vc.freshVal("carried:"+p.Comment, p.Type())
		sc.assume(te.typeInv(p.Type(), phi0[p].t, 0, he.get(st0, "ALLOC", "Int")))
	}
	a0 := he.get(st0, "ALLOC", "Int")
	boolT := types.Typ[types.Bool]
	iterate := func(tag string, st *State, reach string, phiIn map[*ssa.Phi]Val, k, v Val) *iterMode {
		f := vc.newFrame(fn, f0.params, st.clone(), reach, false, tag+"/")
		for i, p := range fn.Params {
			f.vals[p] = f0.params[i]
		}
		im := &iterMode{header: li.header, body: li.body, phiIn: phiIn}
		im.next = func(x *ssa.Next) (Val, bool) {
			if x.Iter != mr.rng {
				return Val{}, false
			}
			return Val{typ: x.Type(), tup: []Val{{t: "true", typ: boolT}, k, v}}, true
		}
		f.iter = im
		f.run(reach)
		return im
	}
	// merge the back edges of an iteration into one state
	join := func(im *iterMode) (string, *State, map[*ssa.Phi]Val, bool) {
		if len(im.backs) == 0 {
			return "false", nil, nil, false
		}
		var ins []condState
		var conds []string
		for _, b := range im.backs {
			ins = append(ins, condState{b.cond, b.st})
			conds = append(conds, b.cond)
		}
		st := he.merge(ins)
		out := map[*ssa.Phi]Val{}
		for _, p := range phis {
			var vs []Val
			for _, b := range im.backs {
				vs = append(vs, b.phi[p])
			}
			out[p] = f0.mergeVals(vs, conds, p.Type(), p.Comment)
		}
		return sc.define("iter.done", "Bool", or(conds...)), st, out, true
	}
	exitCond := func(im *iterMode, f func() []retInfo) string {
		var cs []string
		for _, ex := range im.exits {
			// the normal loop exit (ok == false) cannot be taken: Next is overridden
			cs = append(cs, ex.cond)
		}
		return or(cs...)
	}
	_ = exitCond
	// order A: k1 then k2; order B: k2 then k1
	a1 := iterate("A1", st0, "true", phi0, k1, v1)
	ra1, sa1, pa1, okA1 := join(a1)
	b1 := iterate("B1", st0, "true", phi0, k2, v2)
	rb1, sb1, pb1, okB1 := join(b1)
	leaves := func(im *iterMode) string {
		var cs []string
		for _, ex := range im.exits {
			cs = append(cs, ex.cond)
		}
		return or(cs...)
	}
	mkOb := func(suffix, goal, desc string) {
		ob := &Obligation{Name: base + "." + suffix, Kind: "order", Func: fn.String(), Goal: goal, Claimed: true, Pos: pos, Desc: desc}
		sc.oblige(ob)
		res.obs = append(res.obs, ob)
	}
	realExits := func(im *iterMode) int {
		n := 0
		for _, ex := range im.exits {
			if ex.cond != "false" {
				n++
			}
		}
		return n
	}
	hasExit := realExits(a1) > 0 || realExits(b1) > 0 || hasReturn(li)
	if hasExit {
		// early-exit shape
		la, lb := leaves(a1), leaves(b1)
		if hasReturn(li) {
			res.outOfSubset = append(res.outOfSubset, base+": return inside a map range")
		}
		mkOb("early-exit.unique#0", not(and(la, lb)), "at most one map element makes the loop leave early (two elements k1 != k2 cannot both do so)")
		// elements that do not leave have no effect
		if okA1 {
			var eqs []string
			for _, l := range changedLocs(he, st0, sa1) {
				if l == "ALLOC" {
					continue
				}
				eqs = append(eqs, sameOnOld(he, l, he.get(sa1, l, he.locSort[l]), he.get(st0, l, he.locSort[l]), a0))
			}
			for _, p := range phis {
				if pa1[p].tup == nil && pa1[p].addr == nil {
					eqs = append(eqs, eq(pa1[p].t, phi0[p].t))
				}
			}
			mkOb("early-exit.no-effect#0", implies(ra1, and(eqs...)), "an iteration that does not leave the loop changes nothing (state and loop-carried variables)")
		}
		return
	}
	if !okA1 || !okB1 {
		res.outOfSubset = append(res.outOfSubset, base+": iteration never reaches the back edge")
		return
	}
	a2 := iterate("A2", sa1, ra1, pa1, k2, v2)
	ra2, sa2, pa2, okA2 := join(a2)
	b2 := iterate("B2", sb1, rb1, pb1, k1, v1)
	rb2, sb2, pb2, okB2 := join(b2)
	if !okA2 || !okB2 {
		res.outOfSubset = append(res.outOfSubset, base+": second iteration never reaches the back edge")
		return
	}
	locs := map[string]bool{}
	for _, l := range changedLocs(he, st0, sa2) {
		locs[l] = true
	}
	for _, l := range changedLocs(he, st0, sb2) {
		locs[l] = true
	}
	both := and(ra2, rb2)
	n := 0
	for _, l := range sortedKeys(locs) {
		if l == "ALLOC" {
			continue
		}
		srt := he.locSort[l]
		mkOb(fmt.Sprintf("commute:%s#0", l), implies(both, sameOnOld(he, l, he.get(sa2, l, srt), he.get(sb2, l, srt), a0)),
			"two iterations in either order leave "+l+" in the same state (on every object that existed before the loop)")
		n++
	}
	for _, p := range phis {
		if pa2[p].tup != nil || pa2[p].addr != nil || pa2[p].rng != nil {
			continue
		}
		mkOb(fmt.Sprintf("commute:var:%s#0", p.Comment), implies(both, eq(pa2[p].t, pb2[p].t)),
			"two iterations in either order leave the loop-carried variable "+p.Comment+" equal")
		n++
	}
	if n == 0 {
		mkOb("commute:nothing-modified#0", "true", "the loop body modifies no state and carries no variable")
	}
}

func hasReturn(li *loopInfo) bool {
	for b := range li.body {
		for _, ins := range b.Instrs {
			if _, ok := ins.(*ssa.Return); ok {
				return true
			}
		}
	}
	return false
}

// locations whose current term differs between two states
func changedLocs(he *HeapEnv, a, b *State) []string {
	var out []string
	for l, v := range b.loc {
		srt := he.locSort[l]
		if srt == "" {
			continue
		}
		if he.get(a, l, srt) != v {
			out = append(out, l)
		}
	}
	if a.epoch != b.epoch {
		out = append(out, "!everything (unknown call)")
	}
	sort.Strings(out)
	return out
}

// evaluate the body of fn on other arguments inside a specification (fn must be loop-free
// and must not call itself): used for relational clauses such as antisymmetry of a comparator
func (env *SpecEnv) pureCallBody(fn *ssa.Function, args []Val) Val {
	f := env.f
	vc := f.vc
	return env.inState(func() Val {
		saved := vc.stack
		vc.stack = nil
		defer func() { vc.stack = saved }()
		var bind []Val
		for _, fv := range fn.FreeVars {
			bind = append(bind, f.vals[fv])
		}
		res, term := f.inline(fn, args, bind)
		if term {
			specErr("selfcall does not return")
		}
		return res
	})
}

// ghost location holding the output log
const outLoc = "G:$stdout"

// equality of two versions of a location, restricted to the objects that existed before the
// loop (references <= a0); objects allocated by the iterations themselves are temporaries
func sameOnOld(he *HeapEnv, loc, x, y, a0 string) string {
	if strings.HasPrefix(loc, "G:") || strings.HasPrefix(loc, "!") {
		return eq(x, y)
	}
	if x == y {
		return "true"
	}
	return fmt.Sprintf("(forall ((bv!!r Int)) (=> (<= bv!!r %s) (= (select %s bv!!r) (select %s bv!!r))))", a0, x, y)
}

// ghost location: newline bytes written to a strings.Builder
const builderNLLoc = "C:$builder.newlines"

// cnt_nl(row, lo, hi): number of elements equal to '\n' in row[lo:hi).  Uninterpreted; every
// syntactic occurrence gets its one-step unfolding at lo (ground instance, no quantifier).
func (vc *VC) cntNL(row, lo, hi string) string {
	vc.sc.decl("cnt_nl", "(declare-fun cnt_nl ((Array Int Int) Int Int) Int)")
	usedAxioms["A2:cnt_nl (newline count of a rune array: uninterpreted with its one-step unfolding)"] = true
	r := vc.sc.define("rows.row", "(Array Int Int)", row)
	l := vc.sc.define("rows.lo", "Int", lo)
	h := vc.sc.define("rows.hi", "Int", hi)
	t := app("cnt_nl", r, l, h)
	if hasBound(t) {
		return t
	}
	key := "inst:" + t
	if !vc.sc.declSet[key] {
		vc.sc.declSet[key] = true
		next := app("cnt_nl", r, app("+", l, "1"), h)
		vc.sc.assume(and(app(">=", t, "0"),
			implies(app(">=", l, h), eq(t, "0")),
			implies(app("<", l, h), eq(t, app("+", ite(eq(app("select", r, l), "10"), "1", "0"), next))),
			app(">=", next, "0")))
	}
	return t
}
