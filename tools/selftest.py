#!/usr/bin/env python3
"""Must-fail corpus: each mutant is a small source edit handed to the engine as an overlay
(no copy of the repository is made).  The check of the mutant's property must exit 1 and name
the expected obligation.  Usage: tools/selftest.py [property ...]"""
import json, os, subprocess, sys, tempfile
root = os.path.dirname(os.path.dirname(os.path.abspath(__file__)))
muts = json.load(open(os.path.join(root, 'selftest', 'mutants.json')))
want = set(sys.argv[1:])
bad = 0
for m in muts:
    if want and m['property'] not in want:
        continue
    src = open(os.path.join('/repo', m['file'])).read()
    if src.count(m['old']) != 1:
        print('STALE   %-40s pattern occurs %d times in %s' % (m['name'], src.count(m['old']), m['file']))
        bad += 1
        continue
    with tempfile.NamedTemporaryFile('w', suffix='.go', delete=False) as f:
        f.write(src.replace(m['old'], m['new']))
        tmp = f.name
    try:
        r = subprocess.run([os.path.join(root, 'bin', 'govc'), 'check', '-property', m['property'], '-tier', 'quick',
                            '-no-evidence', '-verif', root, '-ov', '%s=%s' % (m['file'], tmp)], capture_output=True, text=True)
    finally:
        os.unlink(tmp)
    hit = [l for l in r.stdout.split('\n') if l.startswith('VIOLATION') and m['expect'] in l]
    if r.returncode == 1 and hit:
        print('CAUGHT  %-40s %s' % (m['name'], hit[0].split(' ')[3][:90]))
    else:
        bad += 1
        vio = [l.split(' ')[3][:90] for l in r.stdout.split('\n') if l.startswith('VIOLATION')][:3]
        print('MISSED  %-40s exit=%d expected=%s got=%s %s' % (m['name'], r.returncode, m['expect'], vio, r.stderr[-200:]))
print('mutants not caught:', bad)
sys.exit(1 if bad else 0)
