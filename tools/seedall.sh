#!/bin/sh
# Re-run every seeded change in /verif/seeded: apply, run the property's quick check (no evidence
# written), undo.  Prints CAUGHT / MISSED / STALE per change.
cd /verif
bad=0
for d in /verif/seeded/*/; do
  id=$(basename $d); prop=$(python3 -c "import json;print(json.load(open('$d/meta.json'))['property'])")
  if ! git -C /repo apply --check $d/patch.diff 2>/dev/null; then echo "STALE   $id (patch no longer applies)"; bad=1; continue; fi
  git -C /repo apply $d/patch.diff
  out=$(bin/govc check -property $prop -tier quick -no-evidence -verif /verif 2>&1); rc=$?
  git -C /repo apply -R $d/patch.diff
  v=$(echo "$out" | grep -c '^VIOLATION')
  if [ $rc -eq 1 ] && [ $v -gt 0 ]; then echo "CAUGHT  $id  $(echo "$out" | grep '^VIOLATION' | head -1 | sed 's/.*obligation=\([^ ]*\).*/\1/')"; else echo "MISSED  $id (exit=$rc)"; bad=1; fi
done
git -C /repo status --short | head -3
exit $bad
