#!/usr/bin/env python3
# Regenerates MANIFEST.json from manifest_src.json (claims) + properties.jsonl.
import json,subprocess
props=[json.loads(l) for l in open('/verif/properties.jsonl')]
src=json.load(open('/verif/manifest_src.json'))
hooks=subprocess.run(['git','-C','/repo','log','--format=%H %s'],capture_output=True,text=True).stdout.strip().split('\n')
hook_commits=[h.split()[0] for h in hooks if h.split(' ',1)[1].startswith('verif:')]
m={"version":1,"setup_cmd":"./build.sh",
 "hooks":{"guard":"verif","enable":"contracts are comment-only files <pkg>/verif_contracts.go with //go:build verif; the engine loads /repo with -tags=verif; replay tests are injected with go test -overlay (nothing compiled into ti)",
  "baseline_off_cmd":"cd /repo && PATH=/opt/veriftools/go1.26.8/bin:$PATH GOTOOLCHAIN=local GOFLAGS=-mod=mod GOPROXY=off GOSUMDB=off go test -json -vet=off -count=1 -timeout 25m ./...",
  "source_commits":hook_commits,"add_only":True},
 "engines":[{"name":"govc","path":"engine/","serves_properties":sorted(src['checks'].keys()),"kind_free_text":"deductive verifier for Go built here: VC generation over go/ssa (symbolic execution with state merging, loop cutting at invariants, Burstall-Bornat heap, allocation frontier), contracts as //@ comments behind build tag verif, obligations discharged by z3 4.8.12 / z3 5.1.0 / cvc5 1.0; counterexamples replayed on the real code by generated in-package tests"}],
 "checks":[],"notes":src.get('notes',''),"not_applicable":[]}
for p in props:
    pid=p['id']
    if pid in src['checks']:
        c=src['checks'][pid]
        m['checks'].append({"property_id":pid,"quick_cmd":"./check %s quick"%pid,"thorough_cmd":"./check %s thorough"%pid,
          "evidence_file":"/verif/evidence/%s.json"%pid,"replay_cmd_template":"cat {path}","engine":"govc",
          "level_claimed":{"category":"proof","text":c['text'],"design_ref":c.get('design_ref','DESIGN.md section 0.1 (as built); section 6 '+pid+' (plan)')},
          "level_note":c['note'],"technique":c.get('technique',"contract-based deductive verification: WP/VC generation over go/ssa from //@ contracts, discharged by z3/cvc5")})
    else:
        m['not_applicable'].append({"property_id":pid,"reason":src['not_applicable'].get(pid,"not reached yet (framework under construction)")})
json.dump(m,open('/verif/MANIFEST.json','w'),indent=1)
print(len(m['checks']),'checks',len(m['not_applicable']),'not applicable')
