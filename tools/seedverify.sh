#!/bin/sh
# tools/seedverify.sh <worktree-id>: confirm a sub-agent's demo: exit 1 with its change, exit 0 without
export PATH=/opt/veriftools/go1.26.8/bin:$PATH GOTOOLCHAIN=local GOFLAGS=-mod=mod GOPROXY=off GOSUMDB=off
w=/tmp/seed_$1; cd $w || exit 2
git diff -- . ':!*verif_contracts.go' ':!rbs2json' > /tmp/seedverify_$1.patch
go build -o ti . || exit 2
bash demo/demo.sh > /tmp/seedverify_$1.with.log 2>&1; echo "with change: exit=$?"
git apply -R /tmp/seedverify_$1.patch && go build -o ti . && bash demo/demo.sh > /tmp/seedverify_$1.without.log 2>&1; echo "without change: exit=$?"
git apply /tmp/seedverify_$1.patch
rm -f ti
tail -3 /tmp/seedverify_$1.with.log | cut -c1-200
