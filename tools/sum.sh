#!/bin/sh
# summarise the output of ./check: violated obligations (shortened) and the final line
"$@" > /tmp/check_out.txt 2>&1
grep -o "obligation=[^ ]* kind=[a-z-]* status=[a-z]*" /tmp/check_out.txt | sed 's/commute:[^#]*/commute:*/' | sort | uniq -c | head -${SUM_MAX:-25}
grep -o "replay: .*" /tmp/check_out.txt | cut -c1-160 | sort | uniq -c | head -8
grep -E "^KNOWN-FINDING|^note:" /tmp/check_out.txt | cut -c1-200 | head -5
tail -1 /tmp/check_out.txt
