#!/bin/sh
# run every claimed check (quick) and print one line each
cd /verif
for id in $(python3 -c "import json;print(' '.join(c['property_id'] for c in json.load(open('MANIFEST.json'))['checks']))"); do
  ./check $id ${1:-quick} 2>&1 | tail -1
done
