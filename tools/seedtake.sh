#!/bin/sh
# tools/seedtake.sh <worktree-id> <seeded-id> <property>: copy a sub-agent's change into /verif/seeded, apply it to /repo,
# run the property's quick check, undo.  Prints the summary.
w=/tmp/seed_$1; d=/verif/seeded/$2
mkdir -p $d
if [ -d $w ]; then
  git -C $w diff -- . ':!*verif_contracts.go' ':!rbs2json' > $d/patch.diff
  cp -r $w/demo/. $d/ 2>/dev/null
fi
rm -f $d/change.patch
echo "patch: $(grep -c '^[-+][^-+]' $d/patch.diff) changed lines in $(grep -c '^diff' $d/patch.diff) file(s)"
cd /repo && git apply --check $d/patch.diff || { echo "patch does not apply to /repo HEAD"; exit 2; }
git apply $d/patch.diff
cp /verif/evidence/$3.json /tmp/seedtake_ev_$3.json 2>/dev/null
cd /verif && ./check $3 quick > /tmp/seedrun_$2.log 2>&1; echo "exit=$?"
cp /tmp/seedtake_ev_$3.json /verif/evidence/$3.json 2>/dev/null  # the evidence file must describe the unchanged tree
git -C /repo apply -R $d/patch.diff
grep -E "^VIOLATION|^KNOWN|^property" /tmp/seedrun_$2.log | cut -c1-420
git -C /repo status --short | head -3
