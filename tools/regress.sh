#!/bin/sh
# Regression oracles for fix: commits.
#  1. the pinned suite exactly as BASELINE runs it (ti not built): 67 tests must pass
#  2. non-binding: the golden tests with ti actually built; tests that fail are re-run
#     (the 500 ms watchdog makes them flaky under load) and only stable failures are listed.
export PATH=/opt/veriftools/go1.26.8/bin:$PATH GOTOOLCHAIN=local GOFLAGS=-mod=mod GOPROXY=off GOSUMDB=off
cd /repo || exit 2
rm -f /repo/ti
go build ./... || exit 2
p=$(go test -json -vet=off -count=1 -timeout 25m ./... 2>/dev/null | grep -c '"Action":"pass","Package":"ti/test","Test"')
echo "pinned suite (no ti binary): $p passed (expected 67)"
go build -o /repo/ti . || exit 2
fails() { go test -json -vet=off -count=1 -parallel 4 -timeout 25m "$@" ./test/... 2>/dev/null | grep '"Action":"fail","Package":"ti/test","Test"' | sed 's/.*"Test":"\([^"]*\)".*/\1/' | sort -u; }
f=$(fails)
for i in 1 2; do
  [ -z "$f" ] && break
  pat=$(echo $f | sed 's/ /$|^/g')
  f=$(fails -run "^$pat\$")
done
rm -f /repo/ti
echo "golden suite (ti built): stable failures: $(echo $f | tr '\n' ' ')"
[ "$p" = 67 ]
