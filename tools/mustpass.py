#!/usr/bin/env python3
"""Must-pass corpus: harmless edits (comments, reworded messages, restyled but equivalent code)
applied as overlays; the property's quick check must stay quiet (exit 0, no VIOLATION)."""
import json, os, subprocess, sys, tempfile
root = '/verif'
items = json.load(open(os.path.join(root, 'selftest', 'benign.json')))
only = sys.argv[1] if len(sys.argv) > 1 else None
bad = 0
for m in items:
    if only and m['property'] != only:
        continue
    path = os.path.join('/repo', m['file'])
    src = open(path).read()
    if src.count(m['old']) != 1:
        print('STALE   %-44s pattern occurs %d times in %s' % (m['name'], src.count(m['old']), m['file'])); bad += 1; continue
    with tempfile.NamedTemporaryFile('w', suffix='.go', delete=False) as f:
        f.write(src.replace(m['old'], m['new'])); tmp = f.name
    try:
        r = subprocess.run([os.path.join(root, 'bin', 'govc'), 'check', '-property', m['property'], '-tier', 'quick',
                            '-no-evidence', '-verif', root, '-ov', '%s=%s' % (m['file'], tmp)], capture_output=True, text=True)
    finally:
        os.unlink(tmp)
    vio = [l.split(' ')[3][:100] for l in r.stdout.split('\n') if l.startswith('VIOLATION')]
    if r.returncode == 0 and not vio:
        print('QUIET   %-44s %s' % (m['name'], m['property']))
    else:
        bad += 1
        print('ALARM   %-44s exit=%d %s' % (m['name'], r.returncode, vio[:3]))
print('false alarms:', bad)
sys.exit(1 if bad else 0)
